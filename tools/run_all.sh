#!/bin/bash
# regression: every registered check, quick tier; prints one summary line per property
cd "$(dirname "$0")/.."
for p in $(.venv/bin/python -c "import json; print(' '.join(c['property_id'] for c in json.load(open('MANIFEST.json'))['checks']))"); do
  out=$(./check $p --tier ${1:-quick} 2>&1); rc=$?
  echo "rc=$rc $(echo "$out" | grep "^$p \[" | tail -1)"
  echo "$out" | grep "^VIOLATION\|^UNDECIDED\|^CHECKER" | head -5
done
