#!/usr/bin/env python3
"""regenerates seeded/README.md from the meta.json files"""
import json
import os

ROOT = os.path.dirname(os.path.dirname(os.path.abspath(__file__)))
rows = []
for d in sorted(os.listdir(os.path.join(ROOT, "seeded"))):
    mp = os.path.join(ROOT, "seeded", d, "meta.json")
    if not os.path.exists(mp):
        continue
    m = json.load(open(mp))
    prop = d.split("-")[0]
    det = m.get("detection", {}).get(prop, {})
    first = (det.get("first") or [""])[0].replace("obligation ", "").replace("|", "\\|")[:110]
    v = str(det.get("violations"))
    if det.get("no_input"):
        v += f" ({det['no_input']} without input)"
    files = ", ".join(f.replace("cyecca/", "") for f in m.get("files_touched", []))
    rows.append(f"| {d} | {files} | {det.get('rc')} | {v} | {first} |")
head = """# Seeded property-breaking changes

Each directory holds `patch.diff` (apply with `git -C /repo apply`), `demo.py` (fails with the change, passes without), `notes.md` (author's notes) and
`meta.json` (what was run to confirm it and what the check reported). All were written by independent sub-agents that saw only the property text and a scratch
worktree of /repo; each was confirmed in a scratch worktree (repo tests pass apart from the baseline `test_replay`, demo fails with / passes without).
Seeds -1/-2 are round 1, -3/-4 round 2.  `tools/seed_rerun.py` re-runs all of them against the current checks.

| seed | files | check exit | violations | first failed obligation |
|---|---|---|---|---|
"""
open(os.path.join(ROOT, "seeded", "README.md"), "w").write(head + "\n".join(rows) + "\n")
print(len(rows), "seeds")
