"""step 1 of generating lemmas/SO3Surj.lean (L-SO3, surjectivity half): finds, by linear algebra in sympy, the constant-coefficient combinations of the SO(3) relations that give the 2x2 minors of Shepperd's matrix K.
Run: .venv/bin/python tools/gen_so3_lemma_coeffs.py && .venv/bin/python tools/gen_so3_lemma.py && ./check lemmas"""
import os
ROOT = os.path.dirname(os.path.dirname(os.path.abspath(__file__)))
os.makedirs(os.path.join(ROOT, "scratch"), exist_ok=True)
PKL = os.path.join(ROOT, "scratch", "so3gen.pkl")
import sympy as sp, itertools
r=[[sp.Symbol(f"r{i}{j}") for j in range(3)] for i in range(3)]
rels={}
for i in range(3):
    for j in range(i,3):
        rels[f"hr{i}{j}"]=(sum(r[i][k]*r[j][k] for k in range(3)), sp.Integer(1 if i==j else 0))
        rels[f"hc{i}{j}"]=(sum(r[k][i]*r[k][j] for k in range(3)), sp.Integer(1 if i==j else 0))
for i in range(3):
    for j in range(3):
        i1,i2,j1,j2=(i+1)%3,(i+2)%3,(j+1)%3,(j+2)%3
        rels[f"hk{i}{j}"]=(r[i][j], r[i1][j1]*r[i2][j2]-r[i1][j2]*r[i2][j1])
K={}
tr=r[0][0]+r[1][1]+r[2][2]
K[(0,0)]=(1+tr)/4; K[(1,1)]=(1+r[0][0]-r[1][1]-r[2][2])/4; K[(2,2)]=(1-r[0][0]+r[1][1]-r[2][2])/4; K[(3,3)]=(1-r[0][0]-r[1][1]+r[2][2])/4
K[(0,1)]=(r[2][1]-r[1][2])/4; K[(0,2)]=(r[0][2]-r[2][0])/4; K[(0,3)]=(r[1][0]-r[0][1])/4
K[(1,2)]=(r[0][1]+r[1][0])/4; K[(1,3)]=(r[0][2]+r[2][0])/4; K[(2,3)]=(r[1][2]+r[2][1])/4
def k(i,j): return K[(min(i,j),max(i,j))]
syms=[x for row in r for x in row]
names=list(rels)
cs=sp.symbols(f"c0:{len(names)}")
def combo(target):
    expr=sp.expand(target-sum(c*(rels[n][0]-rels[n][1]) for c,n in zip(cs,names)))
    eqs=sp.Poly(expr,*syms).coeffs()
    sol=sp.solve(eqs,cs,dict=True)
    if not sol: return None
    s=sol[0]
    return {n: sp.sympify(s.get(c, c)).subs({x: 0 for x in cs}) for c, n in zip(cs, names)}
out={}
for p in range(4):
    others=[i for i in range(4) if i!=p]
    for a,b in itertools.combinations_with_replacement(others,2):
        t=sp.expand(k(p,a)*k(p,b)-k(p,p)*k(a,b))
        c=combo(t)
        assert c is not None,(p,a,b)
        chk=sp.expand(t-sum(v*(rels[n][0]-rels[n][1]) for n,v in c.items()))
        assert chk==0,(p,a,b,chk)
        out[(p,a,b)]={n:v for n,v in c.items() if v!=0}
        print(p,a,b,out[(p,a,b)])
import pickle; pickle.dump((out,{n:(str(a),str(b)) for n,(a,b) in rels.items()},{kk:str(v) for kk,v in K.items()}),open(PKL,'wb'))
