#!/usr/bin/env python3
"""Confirm a seeded property-breaking change and run the checks against it.

usage: tools/seed_eval.py <PROP> <k> [--also C01,C07]
 1. in the scratch worktree /tmp/wt_<PROP>: apply the patch, run the repo's tests (subset) and the demo (must fail),
    revert, run the demo again (must pass)
 2. in /repo: apply the patch, run ./check <PROP> (and the --also checks), revert IMMEDIATELY
 3. store patch.diff, demo.py, notes.md and meta.json under /verif/seeded/<PROP>-<k>/
"""
import json
import os
import shutil
import subprocess
import sys
import time

ROOT = os.path.dirname(os.path.dirname(os.path.abspath(__file__)))


def sh(cmd, cwd=None, env=None, timeout=3000):
    r = subprocess.run(cmd, shell=True, cwd=cwd, env=env, capture_output=True, text=True, timeout=timeout)
    return r.returncode, (r.stdout + r.stderr)


def main():
    prop, k = sys.argv[1], sys.argv[2]
    also = []
    if "--also" in sys.argv:
        also = sys.argv[sys.argv.index("--also") + 1].split(",")
    wt = f"/tmp/wt_{prop}"
    src = f"{wt}/_seed/{k}"
    patch = f"{src}/patch.diff"
    assert os.path.exists(patch), patch
    env = dict(os.environ, PYTHONPATH=wt, MPLBACKEND="Agg")
    meta = {"property": prop, "seed": k, "ran": []}
    mode = "confirm" if "--confirm-only" in sys.argv else ("check" if "--check-only" in sys.argv else "both")
    cpath = f"{src}/confirm.json"
    ptxt = open(patch).read()
    touched = sorted({l[6:].strip() for l in ptxt.splitlines() if l.startswith("+++ b/")})
    meta["files_touched"] = touched
    if mode == "check":
        meta.update(json.load(open(cpath)))
        confirmed = meta["confirmed"]
    else:
        sh("git checkout -- . ", cwd=wt)
        rc, out = sh(f"git apply {patch}", cwd=wt)
        assert rc == 0, out
        tests = "tests/lie tests/test_symbolic.py"
        if any(("estimate" in f or "util.py" in f or "/sim/" in f or "symbolic.py" in f or "group_so3" in f or "codegen" in f) for f in touched):
            tests += " tests/estimate"
        rc_t, out_t = sh(f"/venv/bin/python -m pytest -q -p no:cacheprovider --timeout=900 -q {tests} 2>&1 | tail -5", cwd=wt, env=env)
        failed = [l for l in out_t.splitlines() if l.startswith("FAILED") and "test_replay" not in l]
        meta["tests_with_patch"] = {"cmd": f"pytest {tests}", "failed": failed, "tail": out_t[-300:]}
        rc_d, out_d = sh(f"/venv/bin/python {src}/demo.py", cwd=wt, env=env, timeout=1200)
        meta["demo_with_patch"] = {"rc": rc_d, "tail": out_d[-400:]}
        sh("git checkout -- .", cwd=wt)
        rc_c, out_c = sh(f"/venv/bin/python {src}/demo.py", cwd=wt, env=env, timeout=1200)
        meta["demo_clean"] = {"rc": rc_c, "tail": out_c[-200:]}
        confirmed = (not failed) and rc_d != 0 and rc_c == 0
        meta["confirmed"] = confirmed
        print(f"[{prop}-{k}] tests failed with patch: {failed}; demo with patch rc={rc_d}; demo clean rc={rc_c}; confirmed={confirmed}")
        json.dump({k_: meta[k_] for k_ in ("tests_with_patch", "demo_with_patch", "demo_clean", "confirmed")}, open(cpath, "w"))
        if mode == "confirm":
            return 0
    # --- 2. the checks against a scratch copy of /repo's working tree with the patch applied (the checks import cyecca from
    #        the copy through PYTHONPATH; /repo itself is not touched).  --in-repo: git apply / git checkout in /repo instead.
    det = {}
    in_repo = "--in-repo" in sys.argv
    import tempfile
    if in_repo:
        rc, out = sh("git status --porcelain", cwd="/repo")
        assert out.strip() == "", "/repo not clean: " + out
        rc, out = sh(f"git apply {patch}", cwd="/repo")
        assert rc == 0, out
        cenv = None
        scratch = None
    else:
        scratch = tempfile.mkdtemp(prefix=f"seedeval_{prop}_{k}_", dir="/tmp")
        sh(f"rsync -a --exclude .git --exclude __pycache__ /repo/ {scratch}/")
        rc, out = sh(f"git apply --unsafe-paths --directory={scratch} {patch}", cwd="/")
        if rc != 0:
            rc, out = sh(f"patch -p1 < {patch}", cwd=scratch)
        assert rc == 0, out
        cenv = dict(os.environ, PYTHONPATH=scratch)
    try:
        for p in [prop] + also:
            t0 = time.time()
            rc, out = sh(f"./check {p} --no-evidence", cwd=ROOT, env=cenv, timeout=3600)
            viol = [l for l in out.splitlines() if l.startswith("VIOLATION")]
            obl = [l.strip() for l in out.splitlines() if l.startswith("  obligation")]
            und = [l for l in out.splitlines() if l.startswith("UNDECIDED") or l.startswith("CHECKER-ERROR")]
            det[p] = {"rc": rc, "violations": len(viol), "first": obl[:3], "undecided_or_error": und[:3], "no_input": sum("no-failing-input-found" in v for v in viol),
                      "wall_s": round(time.time() - t0, 1)}
            print(f"   check {p}: rc={rc} violations={len(viol)} (without input: {det[p]['no_input']}) undecided/errors={len(und)}  {obl[0][:160] if obl else ''}")
    finally:
        if in_repo:
            sh("git checkout -- .", cwd="/repo")
        else:
            shutil.rmtree(scratch, ignore_errors=True)
    meta["detection"] = det
    meta["detected"] = det[prop]["rc"] == 1
    # --- 3. store
    if confirmed:
        dst = os.path.join(ROOT, "seeded", f"{prop}-{k}")
        os.makedirs(dst, exist_ok=True)
        for f in ("patch.diff", "demo.py", "notes.md"):
            if os.path.exists(f"{src}/{f}"):
                shutil.copy(f"{src}/{f}", dst)
        notes = open(f"{src}/notes.md").read() if os.path.exists(f"{src}/notes.md") else ""
        meta["needs_to_manifest"] = notes[:1500]
        json.dump(meta, open(os.path.join(dst, "meta.json"), "w"), indent=1)
    rc, out = sh("git status --porcelain", cwd="/repo")
    assert out.strip() == "", "/repo not clean after evaluation!"
    return 0


if __name__ == "__main__":
    sys.exit(main())
