#!/usr/bin/env python3
"""False-alarm side: run the checks of an area against behaviour-preserving refactorings of /repo.

usage: tools/refactor_eval.py <set> <k> [--store]     (patch read from /tmp/wt_R<set>/_refactor/<k>/ or, once stored,
/verif/refactors/R<set>-<k>/).  A scratch copy of /repo's working tree is patched and every check of the area is run on it
through a PYTHONPATH override (quick tier, no evidence written).  Every check must exit 0."""
import json
import os
import shutil
import subprocess
import sys
import tempfile

ROOT = os.path.dirname(os.path.dirname(os.path.abspath(__file__)))
AREA = {"A": ["C01", "C02", "C03", "C04", "C05", "C06", "C07", "C08"], "B": ["C06", "C09", "C10", "C19", "C02"],
        "C": ["C09", "C11", "C12", "C20"], "D": ["C13", "C14", "C15", "C16", "C18", "C09"]}


def sh(cmd, cwd=None, env=None):
    r = subprocess.run(cmd, shell=True, cwd=cwd, capture_output=True, text=True, env=env)
    return r.returncode, r.stdout + r.stderr


def main():
    st, k = sys.argv[1], sys.argv[2]
    stored = os.path.join(ROOT, "refactors", f"R{st}-{k}")
    src = stored if os.path.exists(os.path.join(stored, "patch.diff")) else f"/tmp/wt_R{st}/_refactor/{k}"
    patch = os.path.join(src, "patch.diff")
    d = tempfile.mkdtemp(prefix=f"refeval_{st}{k}_", dir="/tmp")
    res = {}
    try:
        sh(f"rsync -a --exclude .git --exclude __pycache__ /repo/ {d}/")
        rc, out = sh(f"git apply --unsafe-paths --directory={d} {patch}", cwd="/")
        if rc != 0:
            rc, out = sh(f"patch -p1 < {patch}", cwd=d)
        assert rc == 0, out
        env = dict(os.environ, PYTHONPATH=d)
        for p in AREA[st]:
            rc, out = sh(f"./check {p} --no-evidence", cwd=ROOT, env=env)
            bad = [l for l in out.splitlines() if l.startswith(("VIOLATION", "UNDECIDED", "CHECKER-ERROR"))]
            res[p] = {"rc": rc, "lines": bad[:4]}
            print(f"R{st}-{k} {p}: rc={rc} {bad[0][:200] if bad else ''}", flush=True)
    finally:
        shutil.rmtree(d, ignore_errors=True)
    if "--store" in sys.argv and src != stored:
        os.makedirs(stored, exist_ok=True)
        for f in ("patch.diff", "demo.py", "notes.md"):
            if os.path.exists(os.path.join(src, f)):
                shutil.copy(os.path.join(src, f), stored)
    if os.path.isdir(stored):
        json.dump({"set": st, "k": k, "checks": res, "all_silent": all(v["rc"] == 0 for v in res.values())}, open(os.path.join(stored, "meta.json"), "w"), indent=1)
    return 0 if all(v["rc"] == 0 for v in res.values()) else 1


if __name__ == "__main__":
    sys.exit(main())
