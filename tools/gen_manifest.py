#!/usr/bin/env python3
"""Regenerates MANIFEST.json from the table below (keeps it valid at all times)."""
import json, os
ROOT = os.path.dirname(os.path.dirname(os.path.abspath(__file__)))
A_GRAPH = "CasADi SX graph construction / Function.instruction_* faithful (cross-checked numerically each run); real arithmetic with exact rational constants; own normal-form engine guarded by canaries"
CHECKS = {
 "C01": dict(cat="proof", tech="contract-based deductive: sidecar contracts on the real lie-group methods, traced to SX, identities decided by normal forms in a quotient polynomial ring (ALG)",
             text="Every obligation (to_Matrix = independent spec, homomorphism, two-sided inverse, identity and neutrality, associativity, from_Matrix section) is an exact identity decided for all inputs of the group's sort on every control path; direct products for a finite list of configurations.",
             note=A_GRAPH + "; lemma L-SO3 (DCM = R(q)); MRP singularity and Euler gimbal band excluded by requires", ref="5/C01"),
 "C02": dict(cat="proof", tech="contract-based deductive: exp traced from the real code; ODE characterisation (ray derivative = hat(y) Phi, Phi(0)=I) decided as ring identities (ALG) + lemma L-ODE",
             text="For every algebra/group pair Phi(y)=to_Matrix(exp(y)) satisfies the defining ODE of the matrix exponential along every ray and Phi(0)=I exactly; exp(-y)exp(y)=I and the one-parameter composition law are proved directly. All for every y on the closed-form cell (all angles > 0 incl. beyond pi, both MRP shadow branches); on the Taylor cell the real-arithmetic deviation from the exact function is bounded rigorously (<= 1e-11) by interval arithmetic over the coefficient Jacobian times the truncation bounds.",
             note=A_GRAPH + "; CasADi forward AD; lemma L-ODE (uniqueness for linear ODEs) not machine-checked; floating-point rounding only in C06 (bounded)", ref="5/C02"),
 "C04": dict(cat="proof", tech="contract-based deductive: Ad/ad/bracket traced from the real code, conjugation/commutator/Jacobi/homomorphism identities decided by ring normal forms (ALG); Ad_exp = expm(ad) via the ODE characterisation",
             text="Every obligation is an exact identity for all group/algebra elements of the sort: Ad_X y = vee(M(X) hat(y) M(X^-1)), ad_x y = [x,y] = vee(commutator), antisymmetry, Jacobi, Ad homomorphism and inverse, square n x n shapes, Ad(exp(ty)) solves Phi' = ad_y Phi with Phi(0)=I.",
             note=A_GRAPH + "; CasADi forward AD; lemma L-ODE; closed-form cell for expad; Taylor cell of Ad(exp) bounded rigorously in real arithmetic (1e-11); direct-product Ad/bracket out of scope (asserted to raise)", ref="5/C04"),
 "C05": dict(cat="proof", tech="contract-based deductive: differential of to_Matrix(exp(y)) in a symbolic direction compared with hat(J d) Phi / Phi hat(J d) as ring identities (ALG)",
             text="dexpL/dexpR are literally the property's statement (derivative of exp equals the Jacobian) for a symbolic direction, for so(3), se(3), se_2(3); inverse Jacobians, J_l = Ad_exp J_r = J_r(-x), Q blocks, and the quaternion/MRP kinematic Jacobians (R' = [w]x R, R' = R [w]x, q.q' = 0) are exact identities for all inputs.",
             note=A_GRAPH + "; CasADi forward AD; closed-form cell exact, Taylor cell bounded rigorously in real arithmetic (<= 1e-11, translations in [-1,1]); requires 0 < theta < 2 pi for the inverse coefficients", ref="5/C05"),
 "C03": dict(cat="proof", tech="contract-based deductive: log/exp traced from the real code; round trips decided as ring identities with inverse-trig angle atoms and range-guarded collapsing rules (ALG); principal-angle bound by SMT (QF_NRA) with stated acos/atan axioms",
             text="rt1 (exp(log X) = X as matrices) for every group and all inputs of its sort; rt2 (log(exp x) = x) under the requires angle < pi for SO(2), SE(2), R^n, SO(3) in quaternion/MRP/DCM form and SE(3); principal angle <= pi for canonical inputs incl. quaternions of either sign; Euler form by call-site (modular) obligations on top of the DCM contracts.",
             note=A_GRAPH + "; lemmas L-ROTVEC, L-SO3; transcendental range/monotonicity axioms for acos/asin/atan stated to the SMT solver; closed-form cell (Taylor cell in C06); rt2 not decided for SE_2(3)", ref="5/C03"),
 "C07": dict(cat="proof", tech="contract-based deductive: all 12 conversions + 4 from_Matrix traced from the real code; same-rotation and validity obligations decided by ring normal forms per Shepperd/shadow path (ALG), |r|<=1 and divisor-nonzero by SMT, pitch range structurally",
             text="M(conv(X)) = R_spec(X) exactly for all inputs outside the Euler gimbal band, on every Shepperd and shadow branch and for both quaternion signs; unit norm, orthonormality/det +1, |r| <= 1 and pitch = asin(.) are discharged per branch. The in-band 1e-3 tolerance clause is not decided.",
             note=A_GRAPH + "; lemma L-SO3; z3/cvc5; requires away from q0 = -1 for quaternion->MRP (listed)", ref="5/C07"),
 "C10": dict(cat="proof", tech="contract-based deductive: util routines traced from the real code; rational/polynomial identities decided by ring normal forms (ALG); ca.qr replaced by its contract with machine-checked certificates; RK4 order conditions as an identity modulo h^5",
             text="sqrt_covariance_predict: lower-triangularity and the Lyapunov identity; sqrt_correct: K S = P H^T, Ss Ss^T = S, W+W+^T = (I-KH)P = P - K S K^T as consequences of the QR contract; LDL^T / UDU^T reconstruction with unit-triangular factors; RK4 exact for cubic-in-time fields, equal to the 4th-order Taylor polynomial for linear systems and for a generic scalar polynomial field. Each for all inputs, per listed size.",
             note=A_GRAPH + "; external contract of ca.qr assumed; sizes enumerated (n is a Python loop bound), 'for all n' not claimed; smooth non-polynomial fields by the standard order-condition argument", ref="5/C10"),
 "C18": dict(cat="proof", tech="contract-based deductive: Bezier class and derive_* functions traced from the real code; polynomial/rational identities in (t, T, control points, boundary data) decided by ring normal forms (ALG)",
             text="eval = Bernstein polynomial, end points, every derivative order m <= n equals the m-th time derivative, cubic and septic boundary-value solvers meet every boundary condition at both ends, stacked trajectory outputs are successive derivatives; for all t, T > 0, control points and boundary data, per listed degree/dimension.",
             note=A_GRAPH + "; CasADi symbolic differentiation on the spec side; degrees enumerated (shipped 3 and 7, generic class up to 10 in thorough)", ref="5/C18"),
 "C13": dict(cat="proof", tech="contract-based deductive: control_allocation traced from the real code; postconditions over its piecewise graph decided by z3/cvc5 (QF_NRA/LRA) after exact ring normalisation of branch-free sub-terms and folding of conditions decided by the requires; frame (dominator) check on the graph; ring identity for the mixer inverse",
             text="For symbolic positive F_max, l, Cm, Ct and every demand: forces in [0, F_max], speeds finite and non-negative, M_sat range-limited; for range-limited demands (to which every demand reduces by the dominance obligation): feasible demands reproduced exactly, and when the moment spread fits in F_max the realised moment equals the demand with a uniform, least collective shift.",
             note="A-GRAPH; real arithmetic (IEEE rounding of the shift not modelled); z3/cvc5; own encoder", ref="5/C13"),
 "C16": dict(cat="proof", tech="contract-based deductive: quadrotor.derive_model traced with all 39 parameters symbolic; invariants decided as ring identities per control path (ALG), dependency (frame) analysis on the graph, SMT for the motor law",
             text="q.q' = 0; Newton-Euler wrench equals the independent per-rotor sum (thrust at arm position, reaction torque, modelled aero/ground terms); hover with quarter-weight rotors on a symmetric frame is an equilibrium; free-fall accelerometer output is zero; zero rotor moment for equal speeds on a symmetric frame; independence of horizontal position and equivariance under yaw rotations of the world; first-order motor lag with the right time constant. All for symbolic positive parameters and all states.",
             note="A-GRAPH; real arithmetic; symmetric-frame and positivity requires listed in the evidence", ref="5/C16"),
 "C08": dict(cat="proof", tech="contract-based deductive: strapdown_ins_propagate / SE23 exp_mixed / calculate_N traced from the real code; the flow ODE in dt, initial value, semigroup law and unit norm decided as ring identities (ALG) + lemma L-ODE",
             text="d/d(dt) of the returned state equals the IMU kinematics evaluated at the returned state for every initial state, specific force, gravity, dt > 0 and rate (closed-form cell), x(0) = x0 exactly, zero-rate motion exact for every dt, two steps equal one step of the summed duration, |q| stays 1: hence the propagation is the exact flow, with no discretisation error.",
             note="A-GRAPH; real arithmetic; CasADi symbolic differentiation; lemma L-ODE; small-angle cell bounded rigorously in real arithmetic (<= 1e-11 for |w| <= 3.5 rad/s, dt <= 20 ms, |a| <= 20)", ref="5/C08"),
 "C14": dict(cat="proof", tech="contract-based deductive: set-point generators traced from the real code with SO3Quat.from_Matrix/from_Euler replaced by their contracts at the call sites; orthonormality, determinant, alignment, thrust magnitude, flatness rates and Euler's equation decided as ring identities with norm (root) atoms per branch (ALG) + SMT for signs",
             text="Nominal branches: the matrix handed to from_Matrix is a proper rotation whose z axis is the normalised demanded force and whose y axis is perpendicular to the heading, nT = |force|; mr_ref_traj rates equal the rotation rate of the thrust axis along the trajectory and the moment satisfies Euler's equation; f_ref agrees with mr_ref_traj. Degenerate branches are explored exhaustively: the documented fallbacks are NOT proper rotations (known findings, listed).",
             note="A-GRAPH; real arithmetic; callee contracts from C07; CasADi AD; se23 outer loop with identity gain shaping (feed-forward free)", ref="5/C14"),
 "C15": dict(cat="proof", tech="contract-based deductive: controller functions traced from the real code; saturation bounds as per-call postconditions decided by z3/cvc5 over the extracted piecewise graphs (hybrid ring+SMT encoder), stick maps and error laws as ring identities (ALG), call-site (modular) obligations on top of the log/exp contracts",
             text="Integrator output within +-i_max for every previous state, filter coefficient in (0,1), feedback term <= 30% of weight, height integrator within its limit, yaw set-point in [-pi, pi], 2 m leash, reset; stick maps linear; attitude laws: omega = kp*e (resp. J_l(e) diag(kp) e), R(q) exp(e) = R(q_r), and e = 0 exactly for q_r = q and q_r = -q. Bounds hold for every previous state, hence along arbitrarily long runs.",
             note="A-GRAPH; real arithmetic; z3/cvc5; libm contract of remainder; closed-form cell for `reach` (Taylor cell in C06); callee contracts from C03/C07", ref="5/C15"),
 "C11": dict(cat="proof", tech="contract-based deductive, modular: estimator step functions traced with util.rk4 / sqrt_covariance_predict / sqrt_correct / SO3Mrp.from_Matrix replaced by their contracts at the call sites; call-site obligations as ring identities (ALG), norm bound by SMT, rejection frame and error-code ranges structurally on the real graphs",
             text="predict: the field handed to RK4 is the bias-corrected MRP kinematics, F and Q handed to the square-root propagation are the right-invariant error Jacobian and the stated noise matrix, the result is shadow-switched (same rotation, norm <= 1) and the covariance factor lower triangular; corrections: a non-zero code returns the inputs entrywise, an accepted one returns the callee's W+ (P+ <= P by C10); initialisation hands exactly the true attitude matrix to from_Matrix on the accepted cell and returns exact zero on rejection.",
             note="A-GRAPH; real arithmetic; callee contracts from C05/C07/C10; finiteness of accepted corrections not decided; -0.0 -> +0.0 in the rejection frame", ref="5/C11"),
 "C12": dict(cat="proof", tech="contract-based deductive: only the two per-call clauses — simulated sensor models as ring identities (ALG) and the 6-state write-back of accepted corrections with sqrt_correct by contract",
             text="PARTIAL: the noise-free simulated accelerometer/magnetometer equal R(r)^T times a fixed world vector of the configured magnitude; an accepted magnetometer/accelerometer correction updates every gyro-bias component by its Kalman increment. The convergence clause over the message history is not decided by any contract.",
             note="A-GRAPH; real arithmetic; callee contract C10.sqrt_correct; closed-loop convergence / no-NaN-over-history clause NOT decided (whole-trajectory property)", ref="5/C12"),
 "C09": dict(cat="translation_validation", tech="structural translation validation: generated C and the Function's instruction list are symbolically executed into one hash-consed term DAG and must be identical terms per output; function sets, arity, sparsity layouts, headers; gcc/g++ build; differential run of the compiled object against the CasADi VM",
             text="Every code-generation entry point (codegen.generate_code, algorithms.generate_code, the three model generate_code wrappers and their __main__ export lists) on every shipped equation set and an option lattice: generation succeeds, the exported function set equals the equation set, every function body is term-identical to the symbolic function (hence equal for all inputs, incl. non-finite values in unselected branches), layouts agree, the file compiles and the object agrees bit-for-bit with the VM on finite special-value inputs.",
             note="trusted per-opcode spelling table; FMIN/FMAX differ between VM and C only on NaN operands (CasADi caveat, listed); option combinations CasADi itself rejects are out of scope", ref="5/C09"),
 "C20": dict(cat="proof", tech="contract-based deductive for plain Python: verification conditions generated from the ast of the real source (own symbolic executor, sidecar contracts, ghost delivery trace as (array, length), loop invariant for the fan-out loop), discharged by z3",
             text="Per-call contracts: publish rejects a wrong-typed message without delivering, otherwise delivers the same object exactly once to every subscriber of the topic in registration order and to no one else (loop invariant VCs); Subscriber registration appends to its own topic only; set_param writes one key then broadcasts; Param.update/get_param; the logger's per-resumption contract; the estimator never reaches predict with dt <= 0 and applies corrections only when the minimum period (minus 1 ms) has elapsed, updating t_last_* exactly then.",
             note="assumed Python-subset semantics and frame assumptions (listed); simpy scheduler contract assumed for logger timing; params_callback list bounded to 3 (labelled); whole-history order follows from synchronous per-call delivery", ref="5/C20"),
 "C19": dict(cat="proof", tech="contract-based deductive by structural induction: one obligation per constructor / opcode, obtained by running the real converter on a one-level term with fresh leaves and proving with z3 that the result has the constructor's semantics (C99 opcode table vs SymPy head table, shared uninterpreted transcendental functions); constant-leaf branches and compositionality decided from the ast of the real source",
             text="Every CasADi opcode casadi_to_sympy accepts and every SymPy head sympy_to_casadi accepts keeps its meaning for all leaf values (incl. negative operands, non-integer floats); unsupported constructs raise; f_dict dispatch, symbol tables (incl. cse) are consistent. Variable-arity heads and matrices are checked for stated arities/shapes (bounded part, labelled).",
             note="op-semantics tables trusted; induction principle not machine-checked; Add/Mul arity 2..4 and matrix shapes bounded; one known finding (IEEE remainder)", ref="5/C19"),
 "C06": dict(cat="exploration", tech="contract-based: rigorous sub-lemmas on the real series Functions (switch structure, closed form = named function by ring identities, truncation bound by one-variable Taylor forms with exact rational remainders, exact rational evaluation of values and AD Jacobians at zero) + a BOUNDED stand-in for the floating-point clause (doubles vs 120-digit reference on a log grid through every switch)",
             text="The main clause (double-precision error <= 1e-9 for every rotation magnitude in [0, 1] rad, no jump at the switch) is only explored: every consumer is evaluated at 34 magnitudes from 0 and denormals to 1 rad, on both sides of every switch, in 3 directions, against a 120-digit evaluation of the analytically continued function. Proved rigorously underneath: each series entry is if_else(|x| < 1e-3, polynomial, closed form), the closed form is the named function, |polynomial - analytic continuation| <= 1e-12 on the whole cell (actual bounds ~1e-17), values and AD Jacobians at zero rotation are finite (known findings: quaternion/DCM log Jacobians are NaN at the identity).",
             note="floating-point clause bounded, not proved; lemma L-TAYLOR; mpmath reference; closed-cell exactness in C02-C05", ref="5/C06"),
}
NA = {
 "C17": "closed-loop convergence of the hybrid cascade from an envelope of initial conditions is a whole-trajectory property; no pre/postcondition on a function of /repo expresses it short of a Lyapunov certificate (its per-call ingredients are C13, C15, C16)",
}
PENDING = "contracts for this property are not built yet in this revision of /verif (planned, see DESIGN.md section 5); nothing is claimed"
def main():
    props = [json.loads(l)["id"] for l in open(os.path.join(ROOT, "properties.jsonl"))]
    checks = []
    for pid, c in CHECKS.items():
        checks.append({
            "property_id": pid,
            "quick_cmd": f"./check {pid} --tier quick",
            "thorough_cmd": f"./check {pid} --tier thorough",
            "evidence_file": f"/verif/evidence/{pid}.json",
            "replay_cmd_template": f"./check {pid} --replay {{path}}",
            "engine": "cyverif",
            "level_claimed": {"category": c["cat"], "text": c["text"], "design_ref": c["ref"]},
            "level_note": c["note"],
            "technique": c["tech"],
        })
    na = []
    for pid in props:
        if pid in CHECKS: continue
        na.append({"property_id": pid, "reason": NA.get(pid, PENDING)})
    m = {
        "version": 1,
        "setup_cmd": "./setup.sh",
        "hooks": {"guard": "COGNIPILOT_CYECCA_VERIF", "enable": "no source hooks are needed: contracts are sidecar modules under /verif/contracts and stubs are in-process monkey-patches; ./check exports COGNIPILOT_CYECCA_VERIF=1 for uniformity",
                  "baseline_off_cmd": "cd /repo && /venv/bin/python -m pytest -ra -q -p no:cacheprovider --timeout=900 --continue-on-collection-errors",
                  "source_commits": [], "add_only": True},
        "engines": [{"name": "cyverif", "path": "/verif/cyverif", "serves_properties": sorted(CHECKS), "kind_free_text": "contract harness: trace real code on CasADi SX, lower to a quotient polynomial ring / SMT / interval arithmetic, discharge per-obligation, replay counterexamples on the real functions"}],
        "checks": checks,
        "not_applicable": na,
        "notes": "fix: commits in /repo repair genuine defects reported by these checks; they are listed in /verif/known_findings.jsonl as fixed entries (which suppress nothing).",
    }
    json.dump(m, open(os.path.join(ROOT, "MANIFEST.json"), "w"), indent=1)
    import jsonschema
    jsonschema.validate(m, json.load(open("/root/.vp/MANIFEST.schema.json")))
    print("MANIFEST.json written:", len(checks), "checks,", len(na), "not_applicable")
if __name__ == "__main__":
    main()
