#!/usr/bin/env python3
"""Re-run the checks against the stored seeded changes (regression of the DETECTION side).

usage: tools/seed_rerun.py [<PROP>-<k> ...]      (default: all of /verif/seeded)
For each seed: git -C /repo apply patch.diff, run ./check <PROP> (quick, no evidence written), git -C /repo checkout -- .
straight afterwards.  Exit 0 when every seed is reported (exit code 1 + VIOLATION line), 1 otherwise.  /repo must be clean."""
import json
import os
import subprocess
import sys

ROOT = os.path.dirname(os.path.dirname(os.path.abspath(__file__)))


def sh(cmd, cwd=None):
    r = subprocess.run(cmd, shell=True, cwd=cwd, capture_output=True, text=True)
    return r.returncode, r.stdout + r.stderr


def main():
    ids = sys.argv[1:] or sorted(d for d in os.listdir(os.path.join(ROOT, "seeded")) if os.path.isdir(os.path.join(ROOT, "seeded", d)))
    rc, out = sh("git -C /repo status --porcelain")
    assert out.strip() == "", "/repo is not clean:\n" + out
    missed = []
    for sid in ids:
        prop = sid.split("-")[0]
        patch = os.path.join(ROOT, "seeded", sid, "patch.diff")
        rc, out = sh(f"git -C /repo apply {patch}")
        if rc != 0:
            print(f"{sid}: patch does not apply: {out[:200]}")
            missed.append(sid)
            continue
        try:
            rc, out = sh(f"./check {prop} --no-evidence", cwd=ROOT)
        finally:
            sh("git -C /repo checkout -- .")
        vio = [l for l in out.splitlines() if l.startswith("VIOLATION")]
        summ = [l for l in out.splitlines() if l.startswith(prop + " [")]
        ok = rc == 1 and vio
        print(f"{sid}: rc={rc} violations={len(vio)} {'DETECTED' if ok else 'MISSED'}  {summ[-1] if summ else out[-300:]}", flush=True)
        if not ok:
            missed.append(sid)
    print("missed:", missed)
    return 1 if missed else 0


if __name__ == "__main__":
    sys.exit(main())
