#!/usr/bin/env python3
"""Re-run the checks against the stored seeded changes (regression of the DETECTION side).

usage: tools/seed_rerun.py [--in-repo] [--jobs N] [<PROP>-<k> ...]      (default: all of /verif/seeded)
default mode: for each seed a scratch copy of /repo's working tree is made under /tmp, the patch applied there, and
./check <PROP> run with PYTHONPATH pointing at the copy (the checks import cyecca from there; /repo is not touched);
the copy is removed afterwards.  --in-repo: git -C /repo apply, run, git -C /repo checkout -- . straight afterwards
(/repo must be clean; sequential).  Exit 0 when every seed is reported (exit code 1 + VIOLATION line)."""
import concurrent.futures
import os
import shutil
import subprocess
import sys
import tempfile

ROOT = os.path.dirname(os.path.dirname(os.path.abspath(__file__)))


def sh(cmd, cwd=None, env=None):
    r = subprocess.run(cmd, shell=True, cwd=cwd, capture_output=True, text=True, env=env)
    return r.returncode, r.stdout + r.stderr


def one(sid, in_repo):
    prop = sid.split("-")[0]
    patch = os.path.join(ROOT, "seeded", sid, "patch.diff")
    if in_repo:
        rc, out = sh(f"git -C /repo apply {patch}")
        if rc != 0:
            return sid, False, f"patch does not apply: {out[:200]}"
        try:
            rc, out = sh(f"./check {prop} --no-evidence", cwd=ROOT)
        finally:
            sh("git -C /repo checkout -- .")
    else:
        d = tempfile.mkdtemp(prefix=f"seedrun_{sid}_", dir="/tmp")
        try:
            sh(f"rsync -a --exclude .git --exclude __pycache__ /repo/ {d}/")
            rc, out = sh(f"git apply --unsafe-paths --directory={d} {patch}", cwd="/")
            if rc != 0:
                rc, out = sh(f"patch -p1 < {patch}", cwd=d)
                if rc != 0:
                    return sid, False, f"patch does not apply: {out[:200]}"
            env = dict(os.environ, PYTHONPATH=d, VERIF_REPLAY_DIR=os.path.join(d, "_replays"))
            rc, out = sh(f"./check {prop} --no-evidence", cwd=ROOT, env=env)
            used = [l for l in out.splitlines() if "cyecca imported from" in l]
        finally:
            shutil.rmtree(d, ignore_errors=True)
    vio = [l for l in out.splitlines() if l.startswith("VIOLATION")]
    summ = [l for l in out.splitlines() if l.startswith(prop + " [")]
    ok = rc == 1 and bool(vio)
    return sid, ok, f"rc={rc} violations={len(vio)} {'DETECTED' if ok else 'MISSED'}  {summ[-1] if summ else out[-300:]}"


def main():
    args = sys.argv[1:]
    in_repo = "--in-repo" in args
    jobs = 1
    if "--jobs" in args:
        jobs = int(args[args.index("--jobs") + 1])
        del args[args.index("--jobs"):args.index("--jobs") + 2]
    ids = [a for a in args if not a.startswith("--")] or sorted(d for d in os.listdir(os.path.join(ROOT, "seeded")) if os.path.isdir(os.path.join(ROOT, "seeded", d)))
    if in_repo:
        rc, out = sh("git -C /repo status --porcelain")
        assert out.strip() == "", "/repo is not clean:\n" + out
        jobs = 1
    missed = []
    with concurrent.futures.ThreadPoolExecutor(jobs) as ex:
        for sid, ok, msg in ex.map(lambda s: one(s, in_repo), ids):
            print(f"{sid}: {msg}", flush=True)
            if not ok:
                missed.append(sid)
    print("missed:", missed)
    return 1 if missed else 0


if __name__ == "__main__":
    sys.exit(main())
