/-
L-NORMALIZE (used by C06's floating-point analysis of `q / norm_2(q)` feeding acos / asin): the monotonicity argument,
machine-checked over an abstract rounding `fl : ℝ → ℝ`.  Hypotheses, which are properties of IEEE-754 binary arithmetic and
stay assumed: `fl` is monotone, `fl 1 = 1`, `fl (-1) = -1`, and (Boldo, "Stupid is as stupid does: taking the square root of
the square of a floating-point number", 2015; radix 2, no underflow / overflow) `fl (sqrt (fl (x * x))) = |x|` for the float
`x`.  Conclusion: whatever the computed sum of squares `s` is, as long as it is at least the rounded square of the component
(adding rounded non-negative terms in any order never goes below one of them, by monotonicity), the rounded quotient
`fl (x / fl (sqrt s))` lies in [-1, 1], so acos / asin of it is defined.
-/
import Mathlib.Analysis.SpecialFunctions.Sqrt
import Mathlib.Tactic.Linarith

namespace Cyecca

/-- adding a non-negative term and rounding never goes below a representable summand -/
theorem fl_add_ge (fl : ℝ → ℝ) (hmono : Monotone fl) (a b : ℝ) (ha : fl a = a) (hb : 0 ≤ b) : a ≤ fl (a + b) := by
  calc a = fl a := ha.symm
    _ ≤ fl (a + b) := hmono (by linarith)

/-- L-NORMALIZE modulo the IEEE facts named in the header -/
theorem normalized_component_le_one (fl : ℝ → ℝ) (hmono : Monotone fl) (h1 : fl 1 = 1) (hm1 : fl (-1) = -1)
    (x s : ℝ) (hboldo : fl (Real.sqrt (fl (x * x))) = |x|) (hs : fl (x * x) ≤ s)
    (hpos : 0 < fl (Real.sqrt s)) : |fl (x / fl (Real.sqrt s))| ≤ 1 := by
  have hn : |x| ≤ fl (Real.sqrt s) := by
    rw [← hboldo]
    exact hmono (Real.sqrt_le_sqrt hs)
  have hq : |x / fl (Real.sqrt s)| ≤ 1 := by
    rw [abs_div, abs_of_pos hpos]
    exact (div_le_one hpos).mpr hn
  have hq' := abs_le.mp hq
  rw [abs_le]
  constructor
  · calc (-1 : ℝ) = fl (-1) := hm1.symm
      _ ≤ fl (x / fl (Real.sqrt s)) := hmono hq'.1
  · calc fl (x / fl (Real.sqrt s)) ≤ fl 1 := hmono hq'.2
      _ = 1 := h1

end Cyecca

#print axioms Cyecca.normalized_component_le_one
#print axioms Cyecca.fl_add_ge
