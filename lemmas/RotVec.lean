/-
L-ROTVEC (used by C03's representation-independence step): a rotation of angle < pi has exactly one rotation vector.
Stated on the unit quaternion of a rotation vector v, q(v) = (cos(|v|/2), sinc(|v|/2)/2 * v), which is what
`SO3Quat.exp` computes (sin(|v|/2)/|v| * v, series at 0): if |v|, |w| < pi and q(v) = q(w) or q(v) = -q(w) (the two unit
quaternions of one rotation, lemma L-SO3) then v = w.  Proved in any real normed space, so it covers so(3) = R^3.
-/
import Mathlib.Analysis.SpecialFunctions.Trigonometric.Sinc
import Mathlib.Analysis.SpecialFunctions.Trigonometric.Bounds
import Mathlib.Analysis.Normed.Module.Basic

open Real

namespace Cyecca

variable {E : Type*} [NormedAddCommGroup E] [NormedSpace ℝ E]

/-- scalar part of the unit quaternion of the rotation vector `v` -/
noncomputable def q0 (v : E) : ℝ := cos (‖v‖ / 2)

/-- vector part of the unit quaternion of the rotation vector `v` -/
noncomputable def qv (v : E) : E := (sinc (‖v‖ / 2) / 2) • v

theorem sinc_pos_of_lt_pi {x : ℝ} (h0 : 0 ≤ x) (h1 : x < π) : 0 < sinc x := by
  rcases eq_or_lt_of_le h0 with h | h
  · rw [← h, sinc_zero]; exact one_pos
  · rw [sinc_of_ne_zero (ne_of_gt h)]
    exact div_pos (sin_pos_of_pos_of_lt_pi h h1) h

omit [NormedSpace ℝ E] in
theorem q0_pos (v : E) (hv : ‖v‖ < π) : 0 < q0 v := by
  unfold q0
  apply cos_pos_of_mem_Ioo
  constructor
  · have := norm_nonneg v
    have := pi_pos
    linarith
  · linarith

/-- same sign: equal quaternions give equal rotation vectors -/
theorem rotvec_unique_pos (v w : E) (hv : ‖v‖ < π) (hw : ‖w‖ < π)
    (h0 : q0 v = q0 w) (h1 : qv v = qv w) : v = w := by
  have hn : ‖v‖ / 2 = ‖w‖ / 2 := by
    have hpi := pi_pos
    apply injOn_cos
    · exact ⟨by have := norm_nonneg v; linarith, by linarith⟩
    · exact ⟨by have := norm_nonneg w; linarith, by linarith⟩
    · exact h0
  have hs : 0 < sinc (‖v‖ / 2) / 2 := by
    have := sinc_pos_of_lt_pi (x := ‖v‖ / 2) (by have := norm_nonneg v; linarith)
      (by have := pi_pos; linarith)
    linarith
  unfold qv at h1
  rw [← hn] at h1
  exact smul_right_injective E (ne_of_gt hs) h1

/-- L-ROTVEC: the two unit quaternions of one rotation determine the rotation vector of angle < pi -/
theorem rotvec_unique (v w : E) (hv : ‖v‖ < π) (hw : ‖w‖ < π)
    (h : (q0 v = q0 w ∧ qv v = qv w) ∨ (q0 v = -q0 w ∧ qv v = -qv w)) : v = w := by
  rcases h with ⟨h0, h1⟩ | ⟨h0, _⟩
  · exact rotvec_unique_pos v w hv hw h0 h1
  · have := q0_pos v hv
    have := q0_pos w hw
    linarith

end Cyecca

#print axioms Cyecca.rotvec_unique
