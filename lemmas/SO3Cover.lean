/-
L-SO3, "both signs" half (used by C01 / C03 wherever a rotation is represented by a unit quaternion): two unit quaternions
with the same rotation matrix R(q) -- the nine entries exactly as `SO3Quat.to_Matrix` writes them -- differ by a sign.
Together with L-ROTVEC this gives: the rotation matrix determines the rotation vector of angle < pi.
The other half (every rotation matrix is R(q) for some unit q) stays a stated lemma.
-/
import Mathlib.Tactic.LinearCombination
import Mathlib.Tactic.Linarith
import Mathlib.Data.Real.Basic

namespace Cyecca

/-- q q^T = p p^T for unit quaternions forces p = q or p = -q -/
theorem unit_quat_cover (a b c d a' b' c' d' : ℝ)
    (hq : a ^ 2 + b ^ 2 + c ^ 2 + d ^ 2 = 1) (hp : a' ^ 2 + b' ^ 2 + c' ^ 2 + d' ^ 2 = 1)
    (r00 : a * a + b * b - c * c - d * d = a' * a' + b' * b' - c' * c' - d' * d')
    (r01 : 2 * (b * c - a * d) = 2 * (b' * c' - a' * d'))
    (r02 : 2 * (b * d + a * c) = 2 * (b' * d' + a' * c'))
    (r10 : 2 * (b * c + a * d) = 2 * (b' * c' + a' * d'))
    (r11 : a * a + c * c - b * b - d * d = a' * a' + c' * c' - b' * b' - d' * d')
    (r12 : 2 * (c * d - a * b) = 2 * (c' * d' - a' * b'))
    (r20 : 2 * (b * d - a * c) = 2 * (b' * d' - a' * c'))
    (r21 : 2 * (c * d + a * b) = 2 * (c' * d' + a' * b'))
    (r22 : a * a + d * d - b * b - c * c = a' * a' + d' * d' - b' * b' - c' * c') :
    (a' = a ∧ b' = b ∧ c' = c ∧ d' = d) ∨ (a' = -a ∧ b' = -b ∧ c' = -c ∧ d' = -d) := by
  -- the ten products q_i q_j are linear in the entries of R and the norm
  have haa : a * a = a' * a' := by linarith
  have hbb : b * b = b' * b' := by linarith
  have hcc : c * c = c' * c' := by linarith
  have hdd : d * d = d' * d' := by linarith
  have hab : a * b = a' * b' := by linarith
  have hac : a * c = a' * c' := by linarith
  have had : a * d = a' * d' := by linarith
  have hbc : b * c = b' * c' := by linarith
  have hbd : b * d = b' * d' := by linarith
  have hcd : c * d = c' * d' := by linarith
  -- hence (q . p)^2 = |q|^4 = 1
  have hdot : (a * a' + b * b' + c * c' + d * d') ^ 2 = 1 := by
    have h4 : (a * a' + b * b' + c * c' + d * d') ^ 2 = (a ^ 2 + b ^ 2 + c ^ 2 + d ^ 2) ^ 2 := by
      linear_combination (-(a * a)) * haa + (-(b * b)) * hbb + (-(c * c)) * hcc + (-(d * d)) * hdd
        + (-2 * (a * b)) * hab + (-2 * (a * c)) * hac + (-2 * (a * d)) * had
        + (-2 * (b * c)) * hbc + (-2 * (b * d)) * hbd + (-2 * (c * d)) * hcd
    rw [h4, hq]; norm_num
  have hfac : (a * a' + b * b' + c * c' + d * d' - 1) * (a * a' + b * b' + c * c' + d * d' + 1) = 0 := by
    linear_combination hdot
  rcases mul_eq_zero.mp hfac with h1 | h1
  · left
    have hs : (a' - a) ^ 2 + (b' - b) ^ 2 + (c' - c) ^ 2 + (d' - d) ^ 2 = 0 := by
      linear_combination hq + hp - 2 * h1
    have e1 : (a' - a) ^ 2 = 0 := by linarith only [hs, sq_nonneg (a' - a), sq_nonneg (b' - b), sq_nonneg (c' - c), sq_nonneg (d' - d)]
    have e2 : (b' - b) ^ 2 = 0 := by linarith only [hs, sq_nonneg (a' - a), sq_nonneg (b' - b), sq_nonneg (c' - c), sq_nonneg (d' - d)]
    have e3 : (c' - c) ^ 2 = 0 := by linarith only [hs, sq_nonneg (a' - a), sq_nonneg (b' - b), sq_nonneg (c' - c), sq_nonneg (d' - d)]
    have e4 : (d' - d) ^ 2 = 0 := by linarith only [hs, sq_nonneg (a' - a), sq_nonneg (b' - b), sq_nonneg (c' - c), sq_nonneg (d' - d)]
    exact ⟨by linarith only [pow_eq_zero_iff (n := 2) (by norm_num) |>.mp e1],
           by linarith only [pow_eq_zero_iff (n := 2) (by norm_num) |>.mp e2],
           by linarith only [pow_eq_zero_iff (n := 2) (by norm_num) |>.mp e3],
           by linarith only [pow_eq_zero_iff (n := 2) (by norm_num) |>.mp e4]⟩
  · right
    have hs : (a' + a) ^ 2 + (b' + b) ^ 2 + (c' + c) ^ 2 + (d' + d) ^ 2 = 0 := by
      linear_combination hq + hp + 2 * h1
    have e1 : (a' + a) ^ 2 = 0 := by linarith only [hs, sq_nonneg (a' + a), sq_nonneg (b' + b), sq_nonneg (c' + c), sq_nonneg (d' + d)]
    have e2 : (b' + b) ^ 2 = 0 := by linarith only [hs, sq_nonneg (a' + a), sq_nonneg (b' + b), sq_nonneg (c' + c), sq_nonneg (d' + d)]
    have e3 : (c' + c) ^ 2 = 0 := by linarith only [hs, sq_nonneg (a' + a), sq_nonneg (b' + b), sq_nonneg (c' + c), sq_nonneg (d' + d)]
    have e4 : (d' + d) ^ 2 = 0 := by linarith only [hs, sq_nonneg (a' + a), sq_nonneg (b' + b), sq_nonneg (c' + c), sq_nonneg (d' + d)]
    exact ⟨by linarith only [pow_eq_zero_iff (n := 2) (by norm_num) |>.mp e1],
           by linarith only [pow_eq_zero_iff (n := 2) (by norm_num) |>.mp e2],
           by linarith only [pow_eq_zero_iff (n := 2) (by norm_num) |>.mp e3],
           by linarith only [pow_eq_zero_iff (n := 2) (by norm_num) |>.mp e4]⟩

end Cyecca

#print axioms Cyecca.unit_quat_cover
