/-
L-ERRDYN, exact part (used by C12's reading of the covariance propagation): with the attitude kinematics
R' = R hat(w - b) for the true attitude / gyro bias and Rh' = Rh hat(w - bh) for the estimate, the product rule gives
d/dt (R Rh^T) = R hat(w - b) Rh^T + R (Rh hat(w - bh))^T, and this file checks that this equals - R hat(b - bh) Rh^T:
the measured rate w cancels and the attitude error is driven by the bias error beta = b - bh only.  The first-order step
from there to xi' = - C_nb beta (R Rh^T = exp(xi), beta small) stays a stated lemma.
-/
import Mathlib.Data.Matrix.Basic
import Mathlib.Data.Real.Basic
import Mathlib.LinearAlgebra.Matrix.Notation
import Mathlib.Tactic.NoncommRing

namespace Cyecca

open Matrix

variable {n V : Type*} [Fintype n] [DecidableEq n] [AddCommGroup V] [Module ℝ V]

theorem errdyn_alg (R Rh W Wh : Matrix n n ℝ) (hskew : Whᵀ = -Wh) :
    R * W * Rhᵀ + R * (Rh * Wh)ᵀ = R * (W - Wh) * Rhᵀ := by
  rw [Matrix.transpose_mul, hskew]
  noncomm_ring

/-- L-ERRDYN (exact part): the error attitude `R Rhᵀ` is driven by the bias error only -/
theorem errdyn (hat : V →ₗ[ℝ] Matrix n n ℝ) (hskew : ∀ v, (hat v)ᵀ = -hat v) (R Rh : Matrix n n ℝ) (w b bh : V) :
    R * hat (w - b) * Rhᵀ + R * (Rh * hat (w - bh))ᵀ = -(R * hat (b - bh) * Rhᵀ) := by
  rw [errdyn_alg R Rh (hat (w - b)) (hat (w - bh)) (hskew _)]
  have h : hat (w - b) - hat (w - bh) = -hat (b - bh) := by
    rw [← map_sub, ← map_neg]
    congr 1
    abel
  rw [h]
  noncomm_ring

/-- the same in left-invariant form: with `E = R Rhᵀ`, `Rᵀ R = 1` and the equivariance `R hat(v) Rᵀ = hat(R v)` (C04's `conj`
obligation for SO(3), where `Ad_R = R`), `E' = - hat(R (b - bh)) E`: the error attitude obeys the attitude kinematics driven
by the bias error rotated to the navigation frame, whose linearisation at `E = exp(hat xi)`, `xi` small, is `xi' = - R beta`. -/
theorem errdyn_left (hat : V →ₗ[ℝ] Matrix n n ℝ) (act : Matrix n n ℝ → V → V) (hskew : ∀ v, (hat v)ᵀ = -hat v)
    (R Rh : Matrix n n ℝ) (horth : Rᵀ * R = 1) (hequiv : ∀ v, R * hat v * Rᵀ = hat (act R v)) (w b bh : V) :
    R * hat (w - b) * Rhᵀ + R * (Rh * hat (w - bh))ᵀ = -(hat (act R (b - bh)) * (R * Rhᵀ)) := by
  rw [errdyn hat hskew R Rh w b bh, ← hequiv (b - bh)]
  have h : R * hat (b - bh) * Rᵀ * (R * Rhᵀ) = R * hat (b - bh) * (Rᵀ * R) * Rhᵀ := by
    simp only [Matrix.mul_assoc]
  rw [h, horth, Matrix.mul_one]

end Cyecca

#print axioms Cyecca.errdyn_left

#print axioms Cyecca.errdyn
