/-
L-ERRDYN, exact part (used by C12's reading of the covariance propagation): with the attitude kinematics
R' = R hat(w - b) for the true attitude / gyro bias and Rh' = Rh hat(w - bh) for the estimate, the product rule gives
d/dt (R Rh^T) = R hat(w - b) Rh^T + R (Rh hat(w - bh))^T, and this file checks that this equals - R hat(b - bh) Rh^T:
the measured rate w cancels and the attitude error is driven by the bias error beta = b - bh only.  The first-order step
from there to xi' = - C_nb beta (R Rh^T = exp(xi), beta small) stays a stated lemma.
-/
import Mathlib.Data.Matrix.Basic
import Mathlib.Data.Real.Basic
import Mathlib.LinearAlgebra.Matrix.Notation
import Mathlib.Tactic.NoncommRing

namespace Cyecca

open Matrix

variable {n V : Type*} [Fintype n] [DecidableEq n] [AddCommGroup V] [Module ℝ V]

theorem errdyn_alg (R Rh W Wh : Matrix n n ℝ) (hskew : Whᵀ = -Wh) :
    R * W * Rhᵀ + R * (Rh * Wh)ᵀ = R * (W - Wh) * Rhᵀ := by
  rw [Matrix.transpose_mul, hskew]
  noncomm_ring

/-- L-ERRDYN (exact part): the error attitude `R Rhᵀ` is driven by the bias error only -/
theorem errdyn (hat : V →ₗ[ℝ] Matrix n n ℝ) (hskew : ∀ v, (hat v)ᵀ = -hat v) (R Rh : Matrix n n ℝ) (w b bh : V) :
    R * hat (w - b) * Rhᵀ + R * (Rh * hat (w - bh))ᵀ = -(R * hat (b - bh) * Rhᵀ) := by
  rw [errdyn_alg R Rh (hat (w - b)) (hat (w - bh)) (hskew _)]
  have h : hat (w - b) - hat (w - bh) = -hat (b - bh) := by
    rw [← map_sub, ← map_neg]
    congr 1
    abel
  rw [h]
  noncomm_ring

end Cyecca

#print axioms Cyecca.errdyn
