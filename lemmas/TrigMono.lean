/-
L-TRIG-MONO (used by C07's gimbal-band obligation): inside the band |pitch -+ pi/2| < delta the cosine of the pitch is
below delta, so the proved entrywise bound 2 cos(pitch) is below 2 delta (= 2e-3 for the 1e-3 rad band).
-/
import Mathlib.Analysis.SpecialFunctions.Trigonometric.Bounds

open Real

/-- L-TRIG-MONO: inside the gimbal band the cosine of the pitch is below the band width. -/
theorem cos_lt_of_near_half_pi (θ δ : ℝ) (h : |θ - π / 2| < δ) : |cos θ| < δ := by
  have h1 : cos θ = sin (π / 2 - θ) := by rw [sin_pi_div_two_sub]
  have h2 : |sin (π / 2 - θ)| ≤ |π / 2 - θ| := abs_sin_le_abs
  have h3 : |π / 2 - θ| = |θ - π / 2| := abs_sub_comm _ _
  rw [h1]
  linarith

/-- the same at the south pole -/
theorem cos_lt_of_near_neg_half_pi (θ δ : ℝ) (h : |θ + π / 2| < δ) : |cos θ| < δ := by
  have h1 : cos θ = sin (θ + π / 2) := by rw [sin_add_pi_div_two]
  have h2 : |sin (θ + π / 2)| ≤ |θ + π / 2| := abs_sin_le_abs
  rw [h1]
  linarith

#print axioms cos_lt_of_near_half_pi
#print axioms cos_lt_of_near_neg_half_pi
