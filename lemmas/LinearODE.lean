/-
L-ODE (used by C02 / C04 / C05 / C08): uniqueness for the linear ODE  Phi' = a Phi,  Phi 0 = 1  in a Banach algebra (matrices with
any submultiplicative norm): the solution is exp (t a).  The flow obligations prove the Euler-operator identity
D_y M(exp y) = hat(y) M(exp y) for all y; for Phi(t) = M(exp(t x)) the chain rule d/dt f(t x) = (1/t) (D_y f)(t x) turns it into
Phi' = hat(x) Phi (t > 0; t <= 0 by the same identity for -x and the initial value), which is the hypothesis below.
-/
import Mathlib.Analysis.SpecialFunctions.Exponential
import Mathlib.Analysis.Calculus.MeanValue

open NormedSpace

variable {𝔸 : Type*} [NormedRing 𝔸] [NormedAlgebra ℝ 𝔸] [CompleteSpace 𝔸]

/-- L-ODE: a solution of the linear matrix ODE `Φ' = a Φ`, `Φ 0 = 1` is the exponential `exp (t a)`. -/
theorem linear_ode_unique (a : 𝔸) (Φ : ℝ → 𝔸)
    (hΦ : ∀ t, HasDerivAt Φ (a * Φ t) t) (h0 : Φ 0 = 1) (t : ℝ) :
    Φ t = exp (t • a) := by
  let +nondep : NormedAlgebra ℚ 𝔸 := NormedAlgebra.restrictScalars ℚ ℝ 𝔸
  have hΨ : ∀ s, HasDerivAt (fun u : ℝ => exp (u • (-a)) * Φ u) 0 s := by
    intro s
    have h1 := hasDerivAt_exp_smul_const (-a) s
    have h2 : HasDerivAt (fun u : ℝ => exp (u • (-a)) * Φ u)
        (exp (s • -a) * -a * Φ s + exp (s • -a) * (a * Φ s)) s := h1.mul (hΦ s)
    have e : exp (s • -a) * -a * Φ s + exp (s • -a) * (a * Φ s) = 0 := by
      rw [mul_neg, neg_mul, mul_assoc]
      exact neg_add_cancel _
    rwa [e] at h2
  have hd : Differentiable ℝ (fun u : ℝ => exp (u • (-a)) * Φ u) := fun s => (hΨ s).differentiableAt
  have hz : ∀ s, deriv (fun u : ℝ => exp (u • (-a)) * Φ u) s = 0 := fun s => (hΨ s).deriv
  have hc := is_const_of_deriv_eq_zero hd hz t 0
  simp only [zero_smul, exp_zero, one_mul, h0] at hc
  have hcomm : Commute (t • a) (t • (-a)) := by
    simp [Commute, SemiconjBy]
  have hinv : exp (t • a) * exp (t • (-a)) = 1 := by
    rw [← exp_add_of_commute hcomm]
    simp
  calc Φ t = (exp (t • a) * exp (t • (-a))) * Φ t := by rw [hinv, one_mul]
    _ = exp (t • a) * (exp (t • (-a)) * Φ t) := by rw [mul_assoc]
    _ = exp (t • a) := by rw [hc, mul_one]

#print axioms linear_ode_unique
