/-
L-TAYLOR (used by cyverif/taylor.py: tf_sin, tf_cos, tf_atan): remainders of the Maclaurin polynomials.

  sin, cos :  |f x - sum_{k <= n} f^(k)(0) x^k / k!| <= |x|^(n+1) / (n+1)!        for every real x and every n
              with f^(k)(0) in {0, 1, 0, -1, ...} (the four lemmas at the end)
  arctan   :  |arctan x - sum_{n < K} (-1)^n x^(2n+1) / (2n+1)| <= |x|^(2K+1) / ((2K+1) (1 - x^2))   for |x| < 1

cyverif/taylor.py uses them with n = M (sin, cos: tail constant 1/(M+1)!) and with 2K+1 = M+1, x^2 <= U^2 (arctan: tail
constant 1/((M+1)(1 - U^2))).  Checked by `./check lemmas` (lean 4 + mathlib, no sorry, standard axioms only).
-/
import Mathlib.Analysis.Calculus.Taylor
import Mathlib.Analysis.SpecialFunctions.Trigonometric.Deriv
import Mathlib.Analysis.SpecialFunctions.Trigonometric.Bounds
import Mathlib.Analysis.SpecialFunctions.Complex.Arctan
import Mathlib.Analysis.SpecificLimits.Basic
import Mathlib.Analysis.Normed.Group.InfiniteSum

open Real Set Nat

theorem sin_taylor_remainder (x : ℝ) (n : ℕ) :
    |sin x - ∑ k ∈ Finset.range (n + 1), iteratedDeriv k sin 0 * x ^ k / (k ! : ℝ)|
      ≤ |x| ^ (n + 1) / ((n + 1)! : ℝ) := by
  rcases eq_or_ne 0 x with rfl | hx
  · simp [Finset.sum_range_succ']
  · have hlt : (0:ℝ) ⊓ x < 0 ⊔ x := by
      rcases lt_or_gt_of_ne hx with h | h
      · simp [h]
      · simp [h]
    have h0 : (0:ℝ) ∈ Icc ((0:ℝ) ⊓ x) (0 ⊔ x) := ⟨inf_le_left, le_sup_left⟩
    have hf : ContDiffOn ℝ n sin (uIcc 0 x) := contDiff_sin.contDiffOn
    have hf' : DifferentiableOn ℝ (iteratedDerivWithin n sin (uIcc 0 x)) (uIoo 0 x) := by
      refine (Real.differentiable_iteratedDeriv_sin n).differentiableOn.congr ?_
      intro y hy
      exact Real.iteratedDerivWithin_sin_Icc n hlt ⟨hy.1.le, hy.2.le⟩
    obtain ⟨x', hx', h⟩ := taylor_mean_remainder_lagrange hx hf hf'
    have hx'' : x' ∈ Icc ((0:ℝ) ⊓ x) (0 ⊔ x) := ⟨hx'.1.le, hx'.2.le⟩
    have hsum : taylorWithinEval sin n (uIcc 0 x) 0 x
        = ∑ k ∈ Finset.range (n + 1), iteratedDeriv k sin 0 * x ^ k / (k ! : ℝ) := by
      rw [taylor_within_apply]
      refine Finset.sum_congr rfl (fun k _ => ?_)
      have : iteratedDerivWithin k sin (uIcc 0 x) 0 = iteratedDeriv k sin 0 :=
        Real.iteratedDerivWithin_sin_Icc k hlt h0
      rw [this]
      simp [smul_eq_mul]
      ring
    rw [← hsum, h]
    have hd : iteratedDerivWithin (n + 1) sin (uIcc 0 x) x' = iteratedDeriv (n + 1) sin x' :=
      Real.iteratedDerivWithin_sin_Icc (n + 1) hlt hx''
    rw [hd, sub_zero, abs_div, abs_mul, abs_pow]
    have hb := Real.abs_iteratedDeriv_sin_le_one (n + 1) x'
    have hpos : (0:ℝ) < ((n + 1)! : ℝ) := by positivity
    rw [abs_of_pos hpos]
    apply div_le_div_of_nonneg_right _ hpos.le
    calc |iteratedDeriv (n + 1) sin x'| * |x| ^ (n + 1) ≤ 1 * |x| ^ (n + 1) := by
          apply mul_le_mul_of_nonneg_right hb (by positivity)
      _ = |x| ^ (n + 1) := one_mul _

theorem cos_taylor_remainder (x : ℝ) (n : ℕ) :
    |cos x - ∑ k ∈ Finset.range (n + 1), iteratedDeriv k cos 0 * x ^ k / (k ! : ℝ)|
      ≤ |x| ^ (n + 1) / ((n + 1)! : ℝ) := by
  rcases eq_or_ne 0 x with rfl | hx
  · simp [Finset.sum_range_succ']
  · have hlt : (0:ℝ) ⊓ x < 0 ⊔ x := by
      rcases lt_or_gt_of_ne hx with h | h
      · simp [h]
      · simp [h]
    have h0 : (0:ℝ) ∈ Icc ((0:ℝ) ⊓ x) (0 ⊔ x) := ⟨inf_le_left, le_sup_left⟩
    have hf : ContDiffOn ℝ n cos (uIcc 0 x) := contDiff_cos.contDiffOn
    have hf' : DifferentiableOn ℝ (iteratedDerivWithin n cos (uIcc 0 x)) (uIoo 0 x) := by
      refine (Real.differentiable_iteratedDeriv_cos n).differentiableOn.congr ?_
      intro y hy
      exact Real.iteratedDerivWithin_cos_Icc n hlt ⟨hy.1.le, hy.2.le⟩
    obtain ⟨x', hx', h⟩ := taylor_mean_remainder_lagrange hx hf hf'
    have hx'' : x' ∈ Icc ((0:ℝ) ⊓ x) (0 ⊔ x) := ⟨hx'.1.le, hx'.2.le⟩
    have hsum : taylorWithinEval cos n (uIcc 0 x) 0 x
        = ∑ k ∈ Finset.range (n + 1), iteratedDeriv k cos 0 * x ^ k / (k ! : ℝ) := by
      rw [taylor_within_apply]
      refine Finset.sum_congr rfl (fun k _ => ?_)
      have : iteratedDerivWithin k cos (uIcc 0 x) 0 = iteratedDeriv k cos 0 :=
        Real.iteratedDerivWithin_cos_Icc k hlt h0
      rw [this]
      simp [smul_eq_mul]
      ring
    rw [← hsum, h]
    have hd : iteratedDerivWithin (n + 1) cos (uIcc 0 x) x' = iteratedDeriv (n + 1) cos x' :=
      Real.iteratedDerivWithin_cos_Icc (n + 1) hlt hx''
    rw [hd, sub_zero, abs_div, abs_mul, abs_pow]
    have hb := Real.abs_iteratedDeriv_cos_le_one (n + 1) x'
    have hpos : (0:ℝ) < ((n + 1)! : ℝ) := by positivity
    rw [abs_of_pos hpos]
    apply div_le_div_of_nonneg_right _ hpos.le
    calc |iteratedDeriv (n + 1) cos x'| * |x| ^ (n + 1) ≤ 1 * |x| ^ (n + 1) := by
          apply mul_le_mul_of_nonneg_right hb (by positivity)
      _ = |x| ^ (n + 1) := one_mul _

theorem arctan_taylor_remainder (x : ℝ) (hx : |x| < 1) (K : ℕ) :
    |arctan x - ∑ n ∈ Finset.range K, (-1) ^ n * x ^ (2 * n + 1) / ((2 * n + 1 : ℕ) : ℝ)|
      ≤ |x| ^ (2 * K + 1) / (((2 * K + 1 : ℕ) : ℝ) * (1 - x ^ 2)) := by
  have hs := Real.hasSum_arctan (x := x) (by simpa using hx)
  have hs' := (hasSum_nat_add_iff' K).mpr hs
  have hx2 : x ^ 2 < 1 := by
    have : x ^ 2 = |x| ^ 2 := (sq_abs x).symm
    rw [this]
    exact pow_lt_one₀ (abs_nonneg x) hx (by norm_num)
  have hx2' : 0 ≤ x ^ 2 := sq_nonneg x
  have hg := (hasSum_geometric_of_lt_one hx2' hx2).mul_left (|x| ^ (2 * K + 1) / ((2 * K + 1 : ℕ) : ℝ))
  have hbound : ∀ n : ℕ, ‖(-1 : ℝ) ^ (n + K) * x ^ (2 * (n + K) + 1) / ((2 * (n + K) + 1 : ℕ) : ℝ)‖
      ≤ |x| ^ (2 * K + 1) / ((2 * K + 1 : ℕ) : ℝ) * (x ^ 2) ^ n := by
    intro n
    rw [Real.norm_eq_abs, abs_div, abs_mul, abs_pow, abs_neg, abs_one, one_pow, one_mul, abs_pow]
    have hpos1 : (0 : ℝ) < ((2 * K + 1 : ℕ) : ℝ) := by positivity
    have hpos2 : (0 : ℝ) < ((2 * (n + K) + 1 : ℕ) : ℝ) := by positivity
    rw [abs_of_pos hpos2]
    have hpow : |x| ^ (2 * (n + K) + 1) = |x| ^ (2 * K + 1) * (x ^ 2) ^ n := by
      rw [← sq_abs x, ← pow_mul, ← pow_add]
      congr 1
      ring
    rw [hpow, div_mul_eq_mul_div]
    apply div_le_div_of_nonneg_left (by positivity) hpos1
    exact_mod_cast (by omega : 2 * K + 1 ≤ 2 * (n + K) + 1)
  have := hs'.norm_le_of_bounded hg hbound
  rw [Real.norm_eq_abs] at this
  calc |arctan x - ∑ n ∈ Finset.range K, (-1) ^ n * x ^ (2 * n + 1) / ((2 * n + 1 : ℕ) : ℝ)|
      ≤ |x| ^ (2 * K + 1) / ((2 * K + 1 : ℕ) : ℝ) * (1 - x ^ 2)⁻¹ := this
    _ = |x| ^ (2 * K + 1) / (((2 * K + 1 : ℕ) : ℝ) * (1 - x ^ 2)) := by
        have h1 : (1 - x ^ 2) ≠ 0 := by
          have : 0 < 1 - x ^ 2 := by linarith
          exact ne_of_gt this
        have h2 : (((2 * K + 1 : ℕ) : ℝ)) ≠ 0 := by positivity
        field_simp

theorem iteratedDeriv_sin_zero_even (m : ℕ) : iteratedDeriv (2 * m) sin 0 = 0 := by
  simp [Real.iteratedDeriv_even_sin]

theorem iteratedDeriv_sin_zero_odd (m : ℕ) : iteratedDeriv (2 * m + 1) sin 0 = (-1) ^ m := by
  simp

theorem iteratedDeriv_cos_zero_even (m : ℕ) : iteratedDeriv (2 * m) cos 0 = (-1) ^ m := by
  simp [Real.iteratedDeriv_even_cos]

theorem iteratedDeriv_cos_zero_odd (m : ℕ) : iteratedDeriv (2 * m + 1) cos 0 = 0 := by
  simp

#print axioms sin_taylor_remainder
#print axioms cos_taylor_remainder
#print axioms arctan_taylor_remainder
