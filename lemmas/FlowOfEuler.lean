/-
L-ODE, the chain-rule step (used by C02 / C04 / C05 / C08): the flow obligations prove, on the real code, the Euler-operator
identity  D_y F(y)[y] = hat(y) F(y)  on the closed-form cell S (rotation part != 0: a dense cone; F = M(exp .) or Ad(exp .));
continuity of F and F(0) = I are the Taylor-cell / init obligations.  This file turns that
into F(t x) = exp(t hat(x)) for every t and x:  Phi(t) = F(t x) has Phi'(t) = (1/t) D F(t x)[t x] = hat(x) Phi(t) for t > 0,
Psi(t) = exp(-t a) Phi(t) is constant on (0, oo) (mean value inequality) and tends to Phi(0) = I at 0; t < 0 by x -> -x.
-/
import Mathlib

open NormedSpace Set Filter Topology

namespace Cyecca

variable {𝔸 : Type*} [NormedRing 𝔸] [NormedAlgebra ℝ 𝔸] [CompleteSpace 𝔸]

/-- uniqueness for `Φ' = a Φ` with the derivative known for `t > 0` only, `Φ` continuous, `Φ 0 = 1` -/
theorem linear_ode_unique_pos (a : 𝔸) (Φ : ℝ → 𝔸)
    (hΦ : ∀ t, 0 < t → HasDerivAt Φ (a * Φ t) t) (hc : Continuous Φ) (h0 : Φ 0 = 1) (t : ℝ) (ht : 0 < t) :
    Φ t = exp (t • a) := by
  let +nondep : NormedAlgebra ℚ 𝔸 := NormedAlgebra.restrictScalars ℚ ℝ 𝔸
  have hΨ : ∀ s, 0 < s → HasDerivAt (fun u : ℝ => exp (u • (-a)) * Φ u) 0 s := by
    intro s hs
    have h1 := hasDerivAt_exp_smul_const (-a) s
    have h2 : HasDerivAt (fun u : ℝ => exp (u • (-a)) * Φ u)
        (exp (s • -a) * -a * Φ s + exp (s • -a) * (a * Φ s)) s := h1.mul (hΦ s hs)
    have e : exp (s • -a) * -a * Φ s + exp (s • -a) * (a * Φ s) = 0 := by
      rw [mul_neg, neg_mul, mul_assoc]
      exact neg_add_cancel _
    rwa [e] at h2
  have hconst : ∀ s, 0 < s → exp (s • (-a)) * Φ s = exp (t • (-a)) * Φ t := by
    intro s hs
    have h := (convex_Ioi (0 : ℝ)).norm_image_sub_le_of_norm_hasDerivWithin_le
      (f := fun u : ℝ => exp (u • (-a)) * Φ u) (f' := fun _ => (0 : 𝔸)) (C := 0)
      (fun x hx => (hΨ x hx).hasDerivWithinAt) (fun x _ => by simp) (mem_Ioi.mpr ht) (mem_Ioi.mpr hs)
    simp only [zero_mul] at h
    exact sub_eq_zero.mp (norm_le_zero_iff.mp h)
  have hΨc : Continuous (fun u : ℝ => exp (u • (-a)) * Φ u) := by
    have h1 : Continuous fun u : ℝ => exp (u • (-a)) := exp_continuous.comp (continuous_id.smul continuous_const)
    exact h1.mul hc
  have hlim1 : Tendsto (fun u : ℝ => exp (u • (-a)) * Φ u) (𝓝[>] 0) (𝓝 (exp ((0 : ℝ) • (-a)) * Φ 0)) :=
    hΨc.continuousAt.tendsto.mono_left nhdsWithin_le_nhds
  have hlim2 : Tendsto (fun u : ℝ => exp (u • (-a)) * Φ u) (𝓝[>] 0) (𝓝 (exp (t • (-a)) * Φ t)) := by
    apply tendsto_const_nhds.congr'
    filter_upwards [self_mem_nhdsWithin] with s hs
    exact (hconst s hs).symm
  have hΨ0 := tendsto_nhds_unique hlim1 hlim2
  simp only [zero_smul, exp_zero, one_mul, h0] at hΨ0
  have hcomm : Commute (t • a) (t • (-a)) := by
    simp [Commute, SemiconjBy]
  have hinv : exp (t • a) * exp (t • (-a)) = 1 := by
    rw [← exp_add_of_commute hcomm]
    simp
  calc Φ t = (exp (t • a) * exp (t • (-a))) * Φ t := by rw [hinv, one_mul]
    _ = exp (t • a) * (exp (t • (-a)) * Φ t) := by rw [mul_assoc]
    _ = exp (t • a) := by rw [← hΨ0, mul_one]

variable {E : Type*} [NormedAddCommGroup E] [NormedSpace ℝ E]

/-- on a cone `S` (closed under positive scaling) where `F` is differentiable and satisfies the Euler-operator identity -/
theorem flow_of_euler_cone (F : E → 𝔸) (F' : E → E →L[ℝ] 𝔸) (hat : E →L[ℝ] 𝔸) (S : Set E)
    (hS : ∀ y ∈ S, ∀ u : ℝ, 0 < u → u • y ∈ S)
    (hF : ∀ y ∈ S, HasFDerivAt F (F' y) y) (hE : ∀ y ∈ S, F' y y = hat y * F y)
    (hc : Continuous F) (h0 : F 0 = 1) (x : E) (hx : x ∈ S) (t : ℝ) (ht : 0 < t) : F (t • x) = exp (t • hat x) := by
  have hΦ : ∀ u, 0 < u → HasDerivAt (fun u : ℝ => F (u • x)) (hat x * F (u • x)) u := by
    intro u hu
    have hline : HasDerivAt (fun u : ℝ => u • x) x u := by
      simpa using (hasDerivAt_id u).smul_const x
    have hmem : u • x ∈ S := hS x hx u hu
    have hcomp := (hF (u • x) hmem).comp_hasDerivAt u hline
    have e : F' (u • x) x = hat x * F (u • x) := by
      calc F' (u • x) x = F' (u • x) (u⁻¹ • (u • x)) := by rw [inv_smul_smul₀ (ne_of_gt hu)]
        _ = u⁻¹ • F' (u • x) (u • x) := by rw [ContinuousLinearMap.map_smul]
        _ = u⁻¹ • (hat (u • x) * F (u • x)) := by rw [hE _ hmem]
        _ = hat x * F (u • x) := by
          rw [ContinuousLinearMap.map_smul, smul_mul_assoc, inv_smul_smul₀ (ne_of_gt hu)]
    rw [e] at hcomp
    exact hcomp
  have hcΦ : Continuous (fun u : ℝ => F (u • x)) := hc.comp (continuous_id.smul continuous_const)
  exact linear_ode_unique_pos (hat x) (fun u : ℝ => F (u • x)) hΦ hcΦ (by simp [h0]) t ht

/-- L-ODE with its chain-rule step: the Euler-operator identity on a dense cone `S` (the closed-form cell: rotation part
non-zero), continuity of `F` and `F 0 = 1` give `F (t x) = exp (t hat x)` for every `t` and every `x` -/
theorem flow_of_euler (F : E → 𝔸) (F' : E → E →L[ℝ] 𝔸) (hat : E →L[ℝ] 𝔸) (S : Set E)
    (hS : ∀ y ∈ S, ∀ u : ℝ, 0 < u → u • y ∈ S) (hdense : Dense S)
    (hF : ∀ y ∈ S, HasFDerivAt F (F' y) y) (hE : ∀ y ∈ S, F' y y = hat y * F y)
    (hc : Continuous F) (h0 : F 0 = 1) (x : E) (t : ℝ) : F (t • x) = exp (t • hat x) := by
  let +nondep : NormedAlgebra ℚ 𝔸 := NormedAlgebra.restrictScalars ℚ ℝ 𝔸
  have hpos : ∀ t : ℝ, 0 < t → ∀ x : E, F (t • x) = exp (t • hat x) := by
    intro t ht x
    have hclosed : IsClosed {x : E | F (t • x) = exp (t • hat x)} :=
      isClosed_eq (hc.comp (continuous_const.smul continuous_id))
        (exp_continuous.comp (continuous_const.smul hat.continuous))
    have hsub : S ⊆ {x : E | F (t • x) = exp (t • hat x)} :=
      fun y hy => flow_of_euler_cone F F' hat S hS hF hE hc h0 y hy t ht
    have : x ∈ closure S := by rw [hdense.closure_eq]; trivial
    exact closure_minimal hsub hclosed this
  rcases lt_trichotomy t 0 with ht | ht | ht
  · have h := hpos (-t) (by linarith) (-x)
    simpa using h
  · subst ht
    simp [h0]
  · exact hpos t ht x

end Cyecca

#print axioms Cyecca.flow_of_euler
