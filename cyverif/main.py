"""./check <property> [--tier quick|thorough] [--replay file]   — driver.

exit 0: every obligation discharged (known findings listed), canaries refuted
exit 1: an obligation is refuted            -> VIOLATION property=<id> replay=<path>
exit 2: undecided (timeout / unknown / unresolved atom); never reported as violation
exit 3: checker error (extraction failed, too few obligations, a canary was "proved")
"""
from __future__ import annotations

import argparse
import importlib
import json
import multiprocessing as mp
import os
import sys
import time
import traceback

from .harness import ASSUMED, ERROR, PROVED, REFUTED, UNDECIDED, Result, source_hash

ROOT = os.path.dirname(os.path.dirname(os.path.abspath(__file__)))

PROPS = {
    "C01": "contracts.c01",
    "C02": "contracts.c02",
    "C03": "contracts.c03",
    "C04": "contracts.c04",
    "C05": "contracts.c05",
    "C06": "contracts.c06",
    "C07": "contracts.c07",
    "C08": "contracts.c08",
    "C09": "contracts.c09",
    "C10": "contracts.c10",
    "C11": "contracts.c11",
    "C12": "contracts.c12",
    "C13": "contracts.c13",
    "C14": "contracts.c14",
    "C15": "contracts.c15",
    "C16": "contracts.c16",
    "C18": "contracts.c18",
    "C19": "contracts.c19",
    "C20": "contracts.c20",
}


def _job(args):
    modname, tier, kind, idx, seed = args
    t0 = time.time()
    try:
        mod = importlib.import_module(modname)
        if kind == "trace":
            t = mod.traces(tier)[idx]
            if tier == "thorough" and getattr(t, "budget_s", None):
                t.budget_s = t.budget_s * 5  # thorough: the heavy SE_2(3) traces need ~20 min each on a loaded machine
            rs = t.run(seed)
            meta = {"id": t.id, "functions": [source_hash(f) for f in t.functions], "inputs": [s.describe() for s in t.inputs],
                    "n_instr": getattr(t, "n_instr", None), "lemmas": t.lemmas, "note": t.note}
        elif kind == "canary":
            t = mod.canaries(tier)[idx]
            rs = t.run(seed)
            meta = {"id": t.id, "canary": True}
        else:
            j = mod.jobs(tier)[idx]
            rs = j.run(seed)
            meta = {"id": j.id, "functions": [source_hash(f) for f in getattr(j, "functions", [])],
                    "inputs": getattr(j, "inputs_desc", []), "lemmas": getattr(j, "lemmas", []), "note": getattr(j, "note", ""),
                    "assumptions": getattr(j, "assumptions", [])}
        return kind, idx, meta, [r.to_json() for r in rs], time.time() - t0
    except Exception as e:
        return kind, idx, {"id": f"{modname}[{kind} {idx}]"}, [
            Result(f"{modname}[{kind} {idx}]", "harness", ERROR, "HARNESS", "", time.time() - t0,
                   f"{type(e).__name__}: {e}\n{traceback.format_exc(limit=8)}").to_json()], time.time() - t0


LEMMA_FILES = {"C02": ["LinearODE.lean", "FlowOfEuler.lean"], "C04": ["LinearODE.lean", "FlowOfEuler.lean"], "C05": ["LinearODE.lean"], "C08": ["LinearODE.lean", "FlowOfEuler.lean"], "C06": ["Taylor.lean", "Normalize.lean"], "C12": ["ErrDyn.lean", "SO3Equiv.lean"],
               "C07": ["TrigMono.lean", "SO3Surj.lean"], "C03": ["RotVec.lean", "SO3Cover.lean", "SO3Surj.lean"], "C01": ["SO3Cover.lean", "SO3Surj.lean"]}


def lean_results(prop):
    """thorough tier: the Lean proofs of the lemmas this property leans on are re-compiled as part of the check"""
    import shutil
    import subprocess
    out = []
    lean = shutil.which("lean")
    for fn in LEMMA_FILES.get(prop, []):
        path = os.path.join(ROOT, "lemmas", fn)
        t0 = time.time()
        if not lean or not os.path.exists(path):
            out.append(Result(f"{prop}.lemma[{fn}]", "lemma file compiles in Lean 4 / mathlib", UNDECIDED, "LEAN", "", 0.0, "lean or the file is not available").to_json())
            continue
        try:
            r = subprocess.run([lean, path], capture_output=True, text=True, timeout=1800, cwd=os.path.join(ROOT, "lemmas"))
            txt = r.stdout + r.stderr
            axioms = [l for l in txt.splitlines() if "depends on axioms" in l]
            ok = r.returncode == 0 and "error" not in txt and "sorry" not in txt and bool(axioms)
            out.append(Result(f"{prop}.lemma[{fn}]", f"{fn}: {len(axioms)} theorem(s) accepted by Lean 4 + mathlib without sorry (standard axioms only)",
                              PROVED if ok else ERROR, "LEAN", "", time.time() - t0, "; ".join(a.split("'")[1] for a in axioms if "'" in a) if ok else txt[-600:], None, len(axioms)).to_json())
        except Exception as e:
            out.append(Result(f"{prop}.lemma[{fn}]", "lemma file compiles in Lean 4 / mathlib", ERROR, "LEAN", "", time.time() - t0, f"{type(e).__name__}: {e}").to_json())
    return out


def check_lemmas():
    """compile the Lean 4 / mathlib proofs of the mathematical lemmas the contracts rely on (lemmas/*.lean): no error, no
    `sorry`, only the three standard axioms.  Not part of the per-property checks (keeps them fast)."""
    import glob
    import shutil
    import subprocess
    lean = shutil.which("lean")
    if not lean:
        print("CHECKER-ERROR lean not found on PATH")
        return 3
    rc = 0
    for f in sorted(glob.glob(os.path.join(ROOT, "lemmas", "*.lean"))):
        t0 = time.time()
        r = subprocess.run([lean, f], capture_output=True, text=True, timeout=1800, cwd=os.path.join(ROOT, "lemmas"))
        out = r.stdout + r.stderr
        axioms = [l for l in out.splitlines() if "depends on axioms" in l]
        bad_ax = [l for l in axioms if "sorryAx" in l or any(a not in ("propext", "Classical.choice", "Quot.sound") for a in
                                                               l.split("[")[-1].rstrip("]").replace(" ", "").split(",") if a)]
        ok = r.returncode == 0 and "error" not in out and "sorry" not in out and axioms and not bad_ax
        print(f"lemmas {'ok  ' if ok else 'FAIL'} {os.path.basename(f)}: {len(axioms)} theorem(s) checked, axioms {'standard' if not bad_ax else bad_ax} ({time.time() - t0:.1f}s)")
        if not ok:
            print(out[-1500:])
            rc = 3
    return rc


def load_known(prop):
    path = os.path.join(ROOT, "known_findings.jsonl")
    known, fixed = [], []
    if os.path.exists(path):
        for line in open(path):
            line = line.strip()
            if not line or line.startswith("#"):
                continue
            e = json.loads(line)
            if e.get("property") != prop:
                continue
            (known if e.get("status") == "known" else fixed).append(e)
    return known, fixed


def match_known(known, r):
    for e in known:
        if e.get("trace") == r["trace"] and (e.get("ob") in (None, r["ob"])) and (e.get("path") in (None, r["path"])) \
                and (e.get("paths") is None or r["path"] in e["paths"]):
            return e
    return None


def main(argv=None):
    ap = argparse.ArgumentParser()
    ap.add_argument("prop")
    ap.add_argument("--tier", default=os.environ.get("VERIF_TIER", "quick"))
    ap.add_argument("--replay")
    ap.add_argument("--jobs", type=int, default=min(16, os.cpu_count() or 4))
    ap.add_argument("--filter", default="")
    ap.add_argument("--no-evidence", action="store_true")
    a = ap.parse_args(argv)
    prop = a.prop
    tier = "thorough" if a.tier == "thorough" else "quick"
    seed = int(os.environ.get("VERIF_SEED", "0") or 0)
    if prop == "selftest":
        from . import selftest
        return selftest.main()
    if prop == "lemmas":
        return check_lemmas()
    if prop not in PROPS:
        print(f"unknown or not-applicable property {prop}")
        return 3
    sys.path.insert(0, ROOT)
    try:
        import cyecca
        cy = os.path.dirname(os.path.abspath(cyecca.__file__))
        if not cy.startswith("/repo/"):
            print(f"note: cyecca imported from {cy} (PYTHONPATH override), not from /repo")
    except Exception:
        pass
    modname = PROPS[prop]
    t0 = time.time()
    try:
        mod = importlib.import_module(modname)
    except Exception as e:
        print(f"CHECKER-ERROR importing {modname}: {e}")
        traceback.print_exc()
        return 3
    if a.replay:
        return replay(mod, prop, a.replay)

    jobs = []
    try:
        if hasattr(mod, "traces"):
            for i, t in enumerate(mod.traces(tier)):
                if a.filter in t.id:
                    jobs.append((modname, tier, "trace", i, seed))
        if hasattr(mod, "jobs"):
            for i, j in enumerate(mod.jobs(tier)):
                if a.filter in j.id:
                    jobs.append((modname, tier, "job", i, seed))
        if hasattr(mod, "canaries"):
            for i, t in enumerate(mod.canaries(tier)):
                jobs.append((modname, tier, "canary", i, seed))
    except Exception as e:
        # building the contract list touches the real modules (import-time derive_* calls)
        print(f"CHECKER-ERROR while building contracts: {type(e).__name__}: {e}")
        traceback.print_exc()
        return 3
    hard_timeout = getattr(mod, "HARD_TIMEOUT", {"quick": 900, "thorough": 7200})[tier]
    results, metas, canary_results = [], {}, []
    ctx = mp.get_context("fork")
    with ctx.Pool(min(a.jobs, max(1, len(jobs))), maxtasksperchild=4) as pool:
        asyncs = [(j, pool.apply_async(_job, (j,))) for j in jobs]
        for j, ar in asyncs:
            try:
                kind, idx, meta, rs, secs = ar.get(timeout=max(5, hard_timeout - (time.time() - t0)))
            except mp.TimeoutError:
                kind, idx = j[2], j[3]
                meta = {"id": f"{modname}[{kind} {idx}]"}
                rs = [Result(meta["id"], "budget", UNDECIDED, "HARNESS", "", hard_timeout, "hard time limit").to_json()]
                secs = hard_timeout
            meta["seconds"] = round(secs, 3)
            if kind == "canary":
                canary_results.append((meta, rs))
            else:
                metas[meta["id"]] = meta
                results.extend(rs)
        pool.terminate()

    if tier == "thorough" and not a.filter:
        results.extend(lean_results(prop))
    known, fixed = load_known(prop)
    violations, undecided, errors, known_hits = [], [], [], []
    assumed = [r for r in results if r["status"] == ASSUMED]
    results = [r for r in results if r["status"] != ASSUMED]
    for r in results:
        if r["status"] == REFUTED:
            e = match_known(known, r)
            if e is not None:
                r["known"] = e.get("what", "known finding")
                known_hits.append((e, r))
            else:
                violations.append(r)
        elif r["status"] == UNDECIDED:
            undecided.append(r)
        elif r["status"] == ERROR:
            errors.append(r)
    # canaries must be refuted with a witness
    canary_bad = []
    n_canary = 0
    for meta, rs in canary_results:
        n_canary += 1
        if not any(r["status"] == REFUTED and r.get("witness") for r in rs):
            canary_bad.append(meta["id"])
    n_ob = len(results)
    n_proved = sum(1 for r in results if r["status"] == PROVED)
    min_ob = getattr(mod, "MIN_OBLIGATIONS", {"quick": 1, "thorough": 1})[tier]
    wall = time.time() - t0

    # ---- report ----
    rc = 0
    seen_known = set()
    for e, r in known_hits:
        k = (e.get("trace"), e.get("ob"))
        if k in seen_known:
            continue
        seen_known.add(k)
        print(f"KNOWN-FINDING: property={prop} {e.get('what', '')} [{r['trace']} / {r['ob']}]")
    os.makedirs(os.path.join(ROOT, "replays", prop), exist_ok=True)
    for n, r in enumerate(violations):
        rp = os.path.join(ROOT, "replays", prop, f"{_slug(r['trace'])}__{_slug(r['ob'])}__{r['path'] or 'p'}.json")
        with open(rp, "w") as f:
            json.dump({"property": prop, "trace": r["trace"], "obligation": r["ob"], "path": r["path"], "backend": r["backend"],
                       "tier": tier, "verifier_output": r["detail"], "witness": r.get("witness"),
                       "functions": metas.get(r["trace"], {}).get("functions", []),
                       "how_to_replay": f"./check {prop} --replay {rp}"}, f, indent=1, default=str)
        w_ = r.get("witness")
        tail = "" if (w_ and (not isinstance(w_, dict) or w_.get("inputs"))) else " no-failing-input-found"
        print(f"VIOLATION property={prop} replay={rp}{tail}")
        print(f"  obligation {r['trace']} / {r['ob']} [{r['backend']}] {r['detail'][:400]}")
        rc = 1
    for r in undecided:
        print(f"UNDECIDED {r['trace']} / {r['ob']} path={r['path']!r}: {r['detail'][:300]}")
    for r in errors:
        print(f"CHECKER-ERROR {r['trace']} / {r['ob']}: {r['detail'][:600]}")
    for c in canary_bad:
        print(f"CHECKER-ERROR canary {c} was not refuted: the engine cannot be trusted on this run")
    if n_ob < min_ob:
        print(f"CHECKER-ERROR only {n_ob} obligations generated, expected at least {min_ob} (vacuity guard)")
    if rc == 0:
        if errors or canary_bad or n_ob < min_ob:
            rc = 3
        elif undecided:
            rc = 2
    if os.environ.get("VERIF_VERBOSE"):
        for m in sorted(metas.values(), key=lambda m: -m.get("seconds", 0))[:12]:
            print(f"   slow: {m['id']} {m.get('seconds')}s instr={m.get('n_instr')}")
    if assumed:
        print(f"note: {len(assumed)} path(s) carry divisor-nonzero assumptions that were not discharged (listed in the evidence file)")
    print(f"{prop} [{tier}] obligations={n_ob} discharged={n_proved} known-findings={len(seen_known)} "
          f"violations={len(violations)} undecided={len(undecided)} errors={len(errors)} canaries-refuted={n_canary - len(canary_bad)}/{n_canary} "
          f"wall={wall:.1f}s")
    if not a.no_evidence and not a.filter:
        write_evidence(mod, prop, tier, seed, results, metas, known_hits, violations, undecided, errors, canary_results, wall, assumed)
    return rc


def _slug(s):
    return "".join(ch if ch.isalnum() or ch in "._-" else "_" for ch in s)[:80]


def write_evidence(mod, prop, tier, seed, results, metas, known_hits, violations, undecided, errors, canary_results, wall, assumed=()):
    level = getattr(mod, "LEVEL", "proof")
    bounded_backends = set(getattr(mod, "BOUNDED_BACKENDS", ()))
    bounded = [r for r in results if r["backend"] in bounded_backends]
    if level == "proof" and bounded:
        # bounded stand-ins are reported separately and never counted as discharged obligations
        results = [r for r in results if r["backend"] not in bounded_backends]
    by_backend = {}
    for r in results:
        b = by_backend.setdefault(r["backend"], {"obligations": 0, "discharged": 0, "seconds": 0.0})
        b["obligations"] += 1
        b["discharged"] += r["status"] == PROVED
        b["seconds"] = round(b["seconds"] + r["seconds"], 3)
    samples = []
    for r in results[:: max(1, len(results) // 6)][:8]:
        samples.append({k: r[k] for k in ("trace", "ob", "path", "status", "backend", "detail")})
        samples[-1]["detail"] = samples[-1]["detail"][:300]
    assumptions = list(getattr(mod, "ASSUMPTIONS", []))
    for m in metas.values():
        for x in m.get("assumptions", []) or []:
            if x not in assumptions:
                assumptions.append(x)
    lemmas = sorted({l for m in metas.values() for l in (m.get("lemmas") or [])})
    n_gen = len(results)
    known_hits = [(e, r) for e, r in known_hits if r["backend"] not in bounded_backends or level != "proof"]
    n_known = len(known_hits)
    # the proof claim covers every generated obligation except those refuted by a listed known finding; those are
    # counted separately (refuted_by_known_findings) and are never counted as discharged
    n_ob = n_gen - n_known
    n_dis = sum(1 for r in results if r["status"] == PROVED)
    cov = {
        "obligations": n_ob,
        "discharged": n_dis,
        "obligations_generated": n_gen,
        "refuted_by_known_findings": n_known,
        "checker_cmd": f"./check {prop} --tier {tier}",
        "trusted_base": list(getattr(mod, "TRUSTED", [])) + [f"lemma {l}" for l in lemmas],
        "by_backend": by_backend,
        "functions_under_contract": sorted({f["name"]: f for m in metas.values() for f in m.get("functions", []) if f.get("name")}.values(),
                                           key=lambda f: f["name"]),
        "contracts": [{"id": m["id"], "inputs": m.get("inputs"), "n_instr": m.get("n_instr"), "seconds": m.get("seconds"), "note": m.get("note")}
                      for m in metas.values()],
        "known_findings_hit": [{"trace": r["trace"], "ob": r["ob"], "what": e.get("what")} for e, r in known_hits],
        "undecided": [{"trace": r["trace"], "ob": r["ob"], "detail": r["detail"][:200]} for r in undecided],
        "canaries": [{"id": m["id"], "refuted": any(r["status"] == REFUTED for r in rs)} for m, rs in canary_results],
        "unchecked_definedness_assumptions": [{"trace": r["trace"], "path": r["path"], "detail": r["detail"][:400]} for r in assumed],
        "samples": samples,
        "explanation": getattr(mod, "EXPLANATION", ""),
        "bounded_parts": list(getattr(mod, "BOUNDED", [])),
    }
    if bounded:
        cov["bounded_stand_ins"] = {"backends": sorted(bounded_backends), "runs": len(bounded), "passed": sum(1 for r in bounded if r["status"] == PROVED),
                                    "counted_as_proved": False, "samples": [{k: r[k] for k in ("trace", "ob", "detail")} for r in bounded[:3]]}
    if level != "proof":
        cov["evaluations"] = n_ob
        cov["distinct_nontrivial"] = n_dis
        cov["rule"] = getattr(mod, "RULE", "one evaluation = one generated obligation; non-trivial = discharged by a back end")
        cov["programs"] = getattr(mod, "PROGRAMS", n_ob)
        cov["disagreements_checked"] = len(violations)
    ev = {
        "property_id": prop,
        "tier": tier,
        "seed": seed,
        "level": level,
        "coverage": cov,
        "assumptions": assumptions,
        "wall_s": round(wall, 2),
        "violations": len(violations),
    }
    extra = getattr(mod, "evidence_extra", None)
    if extra:
        try:
            extra(ev, results, metas)
        except Exception as e:  # evidence decoration must never break the verdict
            ev["coverage"]["evidence_extra_error"] = str(e)
    os.makedirs(os.path.join(ROOT, "evidence"), exist_ok=True)
    with open(os.path.join(ROOT, "evidence", f"{prop}.json"), "w") as f:
        json.dump(ev, f, indent=1, default=str)


def replay(mod, prop, path):
    d = json.load(open(path))
    tid = d["trace"]
    target = None
    for tier in ("thorough", "quick"):
        if hasattr(mod, "traces"):
            for t in mod.traces(tier):
                if t.id == tid:
                    target = t
                    break
        if target is None and hasattr(mod, "jobs"):
            for j in mod.jobs(tier):
                if j.id == tid:
                    target = j
                    break
        if target:
            break
    if target is None:
        print(f"replay: contract {tid} not found")
        return 3
    w = d.get("witness")
    if not w:
        # no concrete input: re-run the obligation itself
        rs = target.run(0)
        bad = [r for r in rs if r.status == REFUTED and r.ob == d["obligation"]]
        if bad:
            print(f"VIOLATION property={prop} replay={path} no-failing-input-found")
            print("  " + bad[0].detail[:400])
            return 1
        print("replay: obligation is discharged on the current tree")
        return 0
    failing, desc = target.replay(w)
    if failing:
        print(f"VIOLATION property={prop} replay={path}")
        print("  " + desc[:600])
        return 1
    print("replay: the witness no longer violates the obligation on the current tree")
    return 0


if __name__ == "__main__":
    sys.exit(main())
