"""One-variable Taylor forms with rigorous remainders, exact rational arithmetic.

A form F represents a real function f on 0 < |z| <= r (extended by its limit at 0) as
        f(z) = sum_{i<=N} c_i z^i + rho(z),   |rho(z)| <= R * |z|^(N+1),
c_i, R rational.  Keeping the remainder as a multiple of |z|^(N+1) makes exact division by z^k possible
(removable singularities of the closed forms such as (1 - cos z)/z^2).
Lemma L-TAYLOR (stated, not machine-checked): Lagrange / alternating-series remainders of sin, cos, atan.
"""
from __future__ import annotations

from fractions import Fraction
from math import factorial


class TaylorError(Exception):
    pass


class TF:
    def __init__(self, N, r, c=None, R=0):
        self.N, self.r = N, Fraction(r)
        self.c = list(c or []) + [Fraction(0)] * (N + 1 - len(c or []))
        self.c = [Fraction(x) for x in self.c[: N + 1]]
        self.R = Fraction(R)

    @staticmethod
    def const(N, r, v):
        return TF(N, r, [Fraction(v)])

    @staticmethod
    def var(N, r):
        return TF(N, r, [0, 1])

    def is_exact(self):
        return self.R == 0

    def maxabs(self):
        """bound of |f| on |z| <= r"""
        s = Fraction(0)
        p = Fraction(1)
        for c in self.c:
            s += abs(c) * p
            p *= self.r
        return s + self.R * p

    def lowest(self):
        for i, c in enumerate(self.c):
            if c != 0:
                return i
        return None

    def __neg__(self):
        return TF(self.N, self.r, [-x for x in self.c], self.R)

    def __add__(self, o):
        self, o = same_order(self, o)
        return TF(self.N, self.r, [a + b for a, b in zip(self.c, o.c)], self.R + o.R)

    __radd__ = __add__

    def __sub__(self, o):
        return self + (-lift(self, o))

    def __rsub__(self, o):
        return lift(self, o) - self

    def __mul__(self, o):
        self, o = same_order(self, o)
        N, r = self.N, self.r
        d = [Fraction(0)] * (2 * N + 1)
        for i, a in enumerate(self.c):
            if a:
                for j, b in enumerate(o.c):
                    if b:
                        d[i + j] += a * b
        # tail of the exact product -> remainder coefficient of |z|^(N+1)
        tail = Fraction(0)
        p = Fraction(1)
        for k in range(N + 1, 2 * N + 1):
            tail += abs(d[k]) * p
            p *= r
        pa = sum(abs(c) * r ** i for i, c in enumerate(self.c))
        pb = sum(abs(c) * r ** i for i, c in enumerate(o.c))
        R = tail + pa * o.R + pb * self.R + self.R * o.R * r ** (N + 1)
        return TF(N, r, d[: N + 1], R)

    __rmul__ = __mul__

    def shift_down(self, k):
        """exact division by z^k: requires the k lowest coefficients to vanish identically"""
        if any(self.c[i] != 0 for i in range(k)):
            raise TaylorError(f"division by z^{k}: a lower coefficient does not vanish (pole)")
        # the polynomial loses k degrees; the top k coefficients become unknown and are moved to the remainder:
        # f/z^k = sum_{i<=N-k} c_{i+k} z^i + rho/z^k, |rho/z^k| <= R |z|^(N+1-k) <= R r^... : re-express at order N-k
        return TF(self.N - k, self.r, self.c[k:], self.R)

    def pad(self, N):
        """re-express at a lower order N' <= N (moving terms into the remainder)"""
        if N == self.N:
            return self
        assert N < self.N
        extra = Fraction(0)
        p = Fraction(1)
        for k in range(N + 1, self.N + 1):
            extra += abs(self.c[k]) * p
            p *= self.r
        return TF(N, self.r, self.c[: N + 1], extra + self.R * p)

    def inv(self):
        """1/f for a form with non-zero constant term"""
        a0 = self.c[0]
        if a0 == 0:
            raise TaylorError("reciprocal of a form without constant term")
        w = TF(self.N, self.r, [0] + [c / a0 for c in self.c[1:]], self.R / abs(a0))  # f = a0 (1 + w)
        q = w.maxabs()
        if q >= 1:
            raise TaylorError(f"reciprocal: |w| <= {float(q)} not < 1")
        # 1/(1+w) = sum_{k<=K} (-w)^k + (-w)^(K+1)/(1+w); w = O(z) so (-w)^(K+1) = O(z^(K+1)); take K = N
        acc = TF.const(self.N, self.r, 1)
        pw = TF.const(self.N, self.r, 1)
        for _ in range(self.N):
            pw = pw * (-w)
            acc = acc + pw
        # remainder term: |w|^(N+1)/(1-q) with |w| <= W|z| where W bounds |w/z|
        W = sum(abs(c) * self.r ** (i - 1) for i, c in enumerate(w.c) if i >= 1) + w.R * self.r ** self.N
        acc.R += W ** (self.N + 1) / (1 - q)
        return acc * Fraction(1, 1) * TF.const(self.N, self.r, 1 / a0)

    def __truediv__(self, o):
        o = lift(self, o)
        k = o.lowest()
        if k is None:
            raise TaylorError("division by a form that may vanish identically")
        if k == 0:
            return self * o.inv()
        num, den = self.shift_down(k), o.shift_down(k)
        num, den = num.pad(min(num.N, den.N)), den.pad(min(num.N, den.N))
        return num * den.inv()

    def __rtruediv__(self, o):
        return lift(self, o) / self

    def slope(self):
        """U with |f(z)| <= U |z| (requires zero constant term)"""
        if self.c[0] != 0:
            raise TaylorError("argument of sin/cos/atan must vanish at 0")
        return sum(abs(c) * self.r ** (i - 1) for i, c in enumerate(self.c) if i >= 1) + self.R * self.r ** self.N

    def compose_series(self, coef, tail):
        """sum_j coef[j] u^j with u = self (zero constant term); tail(U, M) bounds the series remainder / |u|^(M+1)"""
        N = self.N
        acc = TF.const(N, self.r, 0)
        pw = TF.const(N, self.r, 1)
        for j, cj in enumerate(coef):
            if j > 0:
                pw = pw * self
            if cj:
                acc = acc + pw * Fraction(cj)
        U = self.slope()
        M = len(coef) - 1
        acc.R += tail(U, M) * U ** (M + 1) * self.r ** (M - N)
        return acc


def same_order(a, b):
    if not isinstance(b, TF):
        b = TF.const(a.N, a.r, b)
    n = min(a.N, b.N)
    return a.pad(n), b.pad(n)


def lift(like, v):
    if isinstance(v, TF):
        if v.N != like.N:
            n = min(v.N, like.N)
            return v.pad(n)
        return v
    return TF.const(like.N, like.r, v)


def tf_sin(u: TF):
    M = u.N + 2
    coef = [Fraction(0)] * (M + 1)
    for j in range(1, M + 1, 2):
        coef[j] = Fraction((-1) ** ((j - 1) // 2), factorial(j))
    return u.compose_series(coef, lambda U, M: Fraction(1, factorial(M + 1)))


def tf_cos(u: TF):
    M = u.N + 2
    coef = [Fraction(0)] * (M + 1)
    for j in range(0, M + 1, 2):
        coef[j] = Fraction((-1) ** (j // 2), factorial(j))
    return u.compose_series(coef, lambda U, M: Fraction(1, factorial(M + 1)))


def tf_atan(u: TF):
    U = u.slope() * u.r
    if U >= 1:
        raise TaylorError("atan argument not inside the unit disc")
    M = u.N + 2
    coef = [Fraction(0)] * (M + 1)
    for j in range(1, M + 1, 2):
        coef[j] = Fraction((-1) ** ((j - 1) // 2), j)
    return u.compose_series(coef, lambda U_, M_: Fraction(1, M_ + 1) / (1 - U * U))


class LF:
    """Laurent form  z^e * (Taylor form): lets intermediate poles such as 4/x in (4/x)*atan(x) cancel exactly"""

    def __init__(self, tf: TF, e=0):
        k = tf.lowest()
        if k is not None and k > 0:
            tf = tf.shift_down(k)
            e += k
        self.tf, self.e = tf, e

    @staticmethod
    def of(like, v):
        if isinstance(v, LF):
            return v
        if isinstance(v, TF):
            return LF(v)
        return LF(TF.const(like.tf.N, like.tf.r, v))

    def to_tf(self):
        if self.e < 0:
            if self.tf.lowest() is None and self.tf.R == 0:
                return self.tf
            raise TaylorError(f"pole of order {-self.e} at 0 (not a removable singularity)")
        if self.e == 0:
            return self.tf
        zp = TF(self.tf.N, self.tf.r, [0] * self.e + [1])
        return self.tf * zp

    def __neg__(self):
        return LF(-self.tf, self.e)

    def __add__(self, o):
        o = LF.of(self, o)
        e = min(self.e, o.e)

        def up(x):
            d = x.e - e
            if d == 0:
                return x.tf
            if d > x.tf.N:
                # contributes only beyond the retained order: pure remainder
                return TF(x.tf.N, x.tf.r, [], x.tf.maxabs() * x.tf.r ** (d - x.tf.N - 1))
            return x.tf * TF(x.tf.N, x.tf.r, [0] * d + [1])

        return LF(up(self) + up(o), e)

    __radd__ = __add__

    def __sub__(self, o):
        return self + (-LF.of(self, o))

    def __rsub__(self, o):
        return LF.of(self, o) - self

    def __mul__(self, o):
        o = LF.of(self, o)
        return LF(self.tf * o.tf, self.e + o.e)

    __rmul__ = __mul__

    def __truediv__(self, o):
        o = LF.of(self, o)
        if o.tf.c[0] == 0:
            raise TaylorError("division by a form whose leading coefficient is not isolated")
        return LF(self.tf * o.tf.inv(), self.e - o.e)

    def __rtruediv__(self, o):
        return LF.of(self, o) / self
