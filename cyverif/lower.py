"""Lowering of IR nodes into ring values (Frac), lazily and per control path.

A *path* is a list of decisions for the distinct condition nodes met while lowering.
`explore(fn)` enumerates all paths depth-first: fn(lowerer) is re-run once per path.
"""
from __future__ import annotations

from fractions import Fraction

from .ir import Graph
from .ring import EngineError, Frac, Poly, Ring, _sqfree_split

SERIES_EPS = Fraction(0.001)


class NeedDecision(Exception):
    pass


class Lowerer:
    def __init__(self, g: Graph, R: Ring, env: dict, decisions=None, decide=None):
        """env: INPUT payload (argname, r, c) -> Frac.  decisions: list of bools consumed in order.
        decide: callback(lowerer, node) -> True/False/None to force a condition (cell selection)."""
        self.g = g
        self.R = R
        self.env = env
        self.memo = {}
        self.cond_memo = {}
        self.decisions = list(decisions or [])
        self.cursor = 0
        self.trace = []  # (node, bool, forced?) in order
        self.decide_cb = decide
        self.angles = {}  # angle var index -> (s Poly, c Poly)

    # ---------------- values ----------------
    def value(self, n) -> Frac:
        if n is None:
            return Frac.of(self.R, 0)
        v = self.memo.get(n)
        if v is None:
            v = self._lower(n)
            self.memo[n] = v
        return v

    def matrix(self, rows):
        return [[self.value(n) for n in row] for row in rows]

    def _lower(self, n) -> Frac:
        g, R = self.g, self.R
        op, args, payload = g.nodes[n]
        if op == "INPUT":
            v = self.env[payload]
            if callable(v):
                v = v(self)
            return Frac.of(R, v)
        if op == "CONST":
            if isinstance(payload, str):
                raise EngineError(f"non-finite constant {payload}")
            return Frac.of(R, payload)
        if op == "IF_ELSE_ZERO":
            if self.cond(args[0]):
                return self.value(args[1])
            return Frac.of(R, 0)
        if op in ("FMIN", "FMAX"):
            a, b = self.value(args[0]), self.value(args[1])
            folded = self._fold_clamp(op, a, b)
            if folded is not None:
                return folded
            lt = self._decide_cmp(("LTv", n), a, b, strict=True, node=n)
            if op == "FMIN":
                return a if lt else b
            return b if lt else a
        if op in ("LT", "LE", "EQ", "NE", "AND", "OR", "NOT"):
            return Frac.of(R, 1 if self.cond(n) else 0)
        if op == "ADD":
            return self.value(args[0]) + self.value(args[1])
        if op == "SUB":
            return self.value(args[0]) - self.value(args[1])
        if op == "MUL":
            return self.value(args[0]) * self.value(args[1])
        if op == "DIV":
            return self.value(args[0]) / self.value(args[1])
        if op == "NEG":
            return -self.value(args[0])
        if op == "SQ":
            a = self.value(args[0])
            return a * a
        if op == "TWICE":
            return self.value(args[0]) * 2
        if op == "INV":
            return self.value(args[0]).inv()
        if op == "ASSIGN":
            return self.value(args[0])
        if op == "SQRT":
            return self.sqrt(self.value(args[0]))
        if op in ("POW", "CONSTPOW"):
            b = self.value(args[1])
            if not b.is_const():
                raise EngineError("non-constant exponent")
            e = b.const_value()
            a = self.value(args[0])
            if e.denominator == 1:
                return a ** int(e)
            if e.denominator == 2:
                return self.sqrt(a) ** int(e * 2)
            raise EngineError(f"exponent {e}")
        if op == "FABS":
            a = self.value(args[0])
            return self.abs(a)
        if op == "SIGN":
            a = self.value(args[0])
            if a.is_const():
                c = a.const_value()
                return Frac.of(R, (c > 0) - (c < 0))
            ab = self.abs(a)
            return ab / a
        if op in ("SIN", "COS", "TAN"):
            s, c = self.sincos(self.value(args[0]))
            if op == "SIN":
                return s
            if op == "COS":
                return c
            return s / c
        if op in ("ACOS", "ASIN", "ATAN"):
            return self.inverse_trig(op, self.value(args[0]))
        if op == "ATAN2":
            return self.atan2(self.value(args[0]), self.value(args[1]))
        raise EngineError(f"op {op} not supported by the ring lowering")

    def _fold_clamp(self, op, a, b):
        """fmin(x, K) = x when x <= K is VALID under the requires / atom constraints / path condition (and symmetrically for
        fmax): a clamp that can never bite in real arithmetic (it only guards against rounding) is not a control path.
        Both branches agree where x = K, so the folding is exact.  Needs the SMT context of the enclosing trace."""
        ctx = getattr(self, "smt_ctx", None)
        if ctx is None or (a.is_const() == b.is_const()):
            return None
        x, K = (a, b) if b.is_const() else (b, a)
        # certificate first (pure ring arithmetic): x is a component of a unit vector whose other two components feed an
        # atan2 of the same graph (Euler angles from a rotation matrix: asin(-R20) with atan2(R21, R22), atan2(R10, R00)):
        # x^2 + y^2 + z^2 - 1 = 0 identically, hence |x| <= 1 and a clamp to [-1, 1] is the identity
        try:
            if abs(K.const_value()) == 1:
                if not hasattr(self, "_atan2_nodes"):
                    self._atan2_nodes = [args_ for (op_, args_, _) in self.g.nodes if op_ == "ATAN2"]
                for yn, zn in self._atan2_nodes:
                    y, z = self.value(yn), self.value(zn)
                    if (x * x + y * y + z * z - Frac.of(self.R, 1)).num.is_zero():
                        self.n_folded_clamps = getattr(self, "n_folded_clamps", 0) + 1
                        return x
        except (EngineError, TimeoutError):
            pass
        try:
            import z3
            from . import smt
            rs, assum = ctx()
            zx, zk = rs.frac(x), rs.frac(K)
            goal = (zx <= zk) if op == "FMIN" else (zx >= zk)
            st, _, _, _ = smt.check(assum + rs.atom_constraints(), goal, 5, want_model=False)
        except Exception:
            return None
        if st == "proved":
            self.n_folded_clamps = getattr(self, "n_folded_clamps", 0) + 1
            return x
        return None

    # ---------------- conditions ----------------
    def cond(self, n) -> bool:
        v = self.cond_memo.get(n)
        if v is not None:
            return v
        op, args, payload = self.g.nodes[n]
        if op == "NOT":
            v = not self.cond(args[0])
        elif op == "AND":
            v = self.cond(args[0]) and self.cond(args[1])
        elif op == "OR":
            v = self.cond(args[0]) or self.cond(args[1])
        elif op in ("LT", "LE", "EQ", "NE"):
            v = self._decide_node(n)
        elif op == "CONST":
            v = payload != 0
        else:
            # numeric value used as a condition: nonzero test
            val = self.value(n)
            if val.is_const():
                v = val.const_value() != 0
            else:
                raise EngineError(f"non-boolean condition node {op}")
        self.cond_memo[n] = v
        return v

    def _decide_node(self, n):
        op, args, _ = self.g.nodes[n]
        forced = None
        if self.decide_cb is not None:
            forced = self.decide_cb(self, n)
        if forced is None:
            # try exact decision on constants
            try:
                a, b = self.value(args[0]), self.value(args[1])
                d = a - b
                if d.is_const():
                    c = d.const_value()
                    forced = {"LT": c < 0, "LE": c <= 0, "EQ": c == 0, "NE": c != 0}[op]
                    self.trace.append((n, forced, "const"))
                    return forced
            except EngineError:
                pass
        if forced is not None:
            self.trace.append((n, forced, "cell"))
            return forced
        v = self._next_decision(n)
        if op in ("LT", "LE"):
            try:
                self._learn_sign(op, self.value(args[0]) - self.value(args[1]), v)
            except (EngineError, TimeoutError):
                pass
        return v

    def _learn_sign(self, op, d: Frac, decision):
        """a path decision `a < b` / `a <= b` (taken or not) fixes the sign of d = a - b.  When d is, up to strictly positive
        factors, a single factor f of unknown sign, the fact f >= 0 (or -f >= 0) is recorded for the rest of this path:
        |f| and sqrt(f^2) then simplify without a sign atom, and a sign atom already created for f is resolved."""
        R = self.R
        if d.is_const():
            return
        # sign of d on this path: LT taken: d < 0; LT not taken: d >= 0; LE taken: d <= 0; LE not taken: d > 0
        s_d = -1 if decision else 1
        pos = getattr(R, "positive", set())

        def strictly_positive(f):
            if R.syntactically_nonneg(f, strict=True):
                return True
            return len(f.t) == 1 and all(i in pos for i, _ in R._unpack(next(iter(f.t)))) and next(iter(f.t.values())) > 0

        c, facs = R.factor(d.num)
        unknown = []
        sign = 1 if c > 0 else -1
        for f, e in facs:
            if strictly_positive(f):
                continue
            if strictly_positive(-f):
                if e % 2:
                    sign = -sign
                continue
            if e % 2 == 0:
                return  # an even power of an unknown factor may vanish: nothing learned
            unknown.append(f)
        for f, e in d.den.items():
            if strictly_positive(f):
                continue
            if strictly_positive(-f):
                if e % 2:
                    sign = -sign
                continue
            return
        if len(unknown) != 1:
            return
        f = unknown[0]
        g = f if sign * s_d > 0 else -f   # g >= 0 on this path
        R.declare_nonneg(g)
        if len(g.t) == 1:
            (m, cf), = g.t.items()
            vs = R._unpack(m)
            if cf > 0 and len(vs) == 1 and vs[0][1] == 1:
                R.nonneg.add(vs[0][0])
        # resolve a sign atom that was created for this factor earlier on the path
        lc = f.lead()[1]
        fn = f if lc == 1 else f.scale(1 / lc)
        sv = R.signs.get(fn.key())
        if sv is not None and sv not in R.rel:
            # sign(fn) = sign(f) * sign(lc); f has the sign of g's relation to f
            s_f = 1 if g is f else -1
            R.add_relation(sv, 1, R.const(s_f if lc > 0 else -s_f))

    def _decide_cmp(self, key, a, b, strict, node):
        d = a - b
        if d.is_const():
            c = d.const_value()
            return c < 0
        if self.decide_cb is not None:
            f = self.decide_cb(self, node)
            if f is not None:
                self.trace.append((node, f, "cell"))
                return f
        return self._next_decision(node)

    def _next_decision(self, n):
        if self.cursor < len(self.decisions):
            v = self.decisions[self.cursor]
        else:
            v = True
            self.decisions.append(v)
        self.cursor += 1
        self.trace.append((n, v, "path"))
        return v

    # ---------------- atoms ----------------
    def abs_poly(self, f: Poly) -> Poly:
        """|f| for a normalised irreducible factor f"""
        R = self.R
        if R.known_nonneg(f):
            return f
        nf = -f
        if R.known_nonneg(nf):
            return nf
        # one sign atom per factor up to a constant multiple: |f| = |lc| * sgn(f/lc) * (f/lc), so that f, -f and 2f share it
        lc = f.lead()[1]
        fn = f if lc == 1 else f.scale(1 / lc)
        if fn.nterms() == 1:
            sign_vars = set(getattr(R, "sign_of", {}))
            if sign_vars and all(i in sign_vars for i, _ in R._unpack(fn.lead()[0])):
                return R.const(abs(lc))  # |product of sign atoms| = 1
        k = fn.key()
        sv = R.signs.get(k)
        if sv is None:
            sv = R.var(f"sgn{len(R.signs)}")
            R.signs[k] = sv
            R.add_relation(sv, 2, R.const(1))
            R.sign_of = getattr(R, "sign_of", {})
            R.sign_of[sv] = fn
        return (R.vpoly(sv) * fn).scale(abs(lc))

    def abs(self, a: Frac) -> Frac:
        R = self.R
        if a.is_const():
            return Frac.of(R, abs(a.const_value()))
        c, facs = R.factor(a.num)
        num = R.const(abs(c))
        for f, e in facs:
            if e % 2 == 0:
                num = num * (f ** e)
            else:
                num = num * (self.abs_poly(f) ** e)
        den = R.const(1)
        out = Frac(R, num)
        for f, e in a.den.items():
            d = (f ** e) if e % 2 == 0 else (self.abs_poly(f) ** e)
            out = out / Frac(R, d)
        return out

    def sqrt(self, a: Frac) -> Frac:
        R = self.R
        if a.is_zero():
            return a
        if a.is_const():
            c = a.const_value()
            if c < 0:
                raise EngineError("sqrt of negative constant")
            r, m = _sqfree_split(c)
            if m == 1:
                return Frac.of(R, r)
            return Frac(R, self._root_atom(R.const(m)).scale(r))
        N = a.num
        dn = Frac.of(R, 1)
        for f, e in a.den.items():
            # a denominator factor that is (plus or minus) a known square, f = r^2 or f = -r^2 (e.g. the normal form
            # 1 - q1^2 - q2^2 - q3^2 of q0^2): sqrt(N / f^e) = sqrt(+-N) / r^e, no new radicand
            rt = self._root_lookup(f)
            neg = False
            if rt is None:
                rt = self._root_lookup(-f)
                neg = rt is not None
            if rt is not None:
                dn = dn * Frac(R, rt ** e)
                if neg and e % 2:
                    N = -N
                continue
            if e % 2:
                N = N * f
            dn = dn * Frac(R, self.abs_poly(f) ** ((e + 1) // 2))
        # whole-radicand table lookup first
        hit = self._root_lookup(N)
        if hit is not None:
            return Frac(R, hit) / dn
        c, facs = R.factor(N)
        outside = R.const(1)
        odd = R.const(1)
        for f, e in facs:
            if e // 2:
                outside = outside * (self.abs_poly(f) ** (e // 2))
            if e % 2:
                odd = odd * f
        if odd.is_const():
            if c < 0:
                raise EngineError("sqrt of a negative multiple of a square")
            r, m = _sqfree_split(c)
            root = R.const(r) if m == 1 else self._root_atom(R.const(m)).scale(r)
        else:
            rad = odd.scale(c)
            hit = self._root_lookup(rad)
            root = hit if hit is not None else self._root_atom_general(rad)
        return Frac(R, outside * root) / dn

    def _norm_rad(self, p: Poly):
        """p = s * r^2 * key, with key having |lead coeff| squarefree integer m>0; returns (r, keypoly)"""
        lm, lc = p.lead()
        r, m = _sqfree_split(abs(lc))
        keyp = p.scale(Fraction(m) / abs(lc))
        return r, keyp

    def _root_lookup(self, p: Poly):
        if p.is_const():
            return None
        r, keyp = self._norm_rad(p)
        v = self.R.roots.get(keyp.key())
        if v is None:
            return None
        return v.scale(r)

    def _root_atom_general(self, p: Poly) -> Poly:
        r, keyp = self._norm_rad(p)
        return self._root_atom(keyp).scale(r)

    def _root_atom(self, keyp: Poly) -> Poly:
        R = self.R
        k = keyp.key()
        v = R.roots.get(k)
        if v is None:
            i = R.var(f"rt{len(R.root_def)}", nonneg=True)
            R.root_def[i] = keyp
            R.add_relation(i, 2, keyp)
            v = R.vpoly(i)
            R.roots[k] = v
            R.side.append(("radicand_nonneg", keyp))
        return v

    def seed_root(self, radicand: Poly, value: Poly):
        """declare sqrt(radicand) = value (value >= 0 on the domain); used by input sorts"""
        r, keyp = self._norm_rad(radicand)
        self.R.roots[keyp.key()] = value.scale(1 / r)

    # ---------------- trig ----------------
    def register_angle(self, phi_var: int, s: Poly, c: Poly):
        self.angles[phi_var] = (s, c)

    def sincos(self, x: Frac):
        """x must be an integer-linear form in registered base angles (possibly times sign atoms)"""
        R = self.R
        if x.den:
            raise EngineError(f"trig argument with non-constant denominator: {x}")
        one = Frac.of(R, 1)
        zero = Frac.of(R, 0)
        S, C = zero, one
        for m, coef in x.num.t.items():
            evs = R._unpack(m)
            ang = [i for i, e in evs if i in self.angles]
            others = [(i, e) for i, e in evs if i not in self.angles]
            if len(ang) != 1 or R.exp_of(m, ang[0]) != 1:
                raise EngineError(f"trig argument is not linear in a base angle: {R.show(x.num)}")
            if coef.denominator != 1:
                raise EngineError(f"non-integral multiple {coef} of base angle {R.names[ang[0]]}")
            sign = R.const(1)
            for i, e in others:
                if i in getattr(R, "sign_of", {}) and e == 1:
                    sign = sign * R.vpoly(i)
                else:
                    raise EngineError(f"trig argument has non-sign cofactor {R.names[i]}")
            n = int(coef)
            s1, c1 = self.angles[ang[0]]
            sn, cn = self._multiple(Frac.of(R, s1), Frac.of(R, c1), abs(n))
            if n < 0:
                sn = -sn
            sn = sn * Frac(R, sign)
            S, C = S * cn + C * sn, C * cn - S * sn
        return S, C

    def _multiple(self, s, c, n):
        R = self.R
        S, C = Frac.of(R, 0), Frac.of(R, 1)
        for _ in range(n):
            S, C = S * c + C * s, C * c - S * s
        return S, C

    @staticmethod
    def fkey(a: Frac):
        return (a.num.key(), tuple(sorted((f.key(), e) for f, e in a.den.items())))

    def inverse_trig(self, op, u: Frac) -> Frac:
        """alpha = asin/acos/atan(u): a fresh angle atom whose sine and cosine are ring values.
        asin: sin a = u, cos a = +sqrt(1-u^2)   (a in [-pi/2, pi/2])
        acos: cos a = u, sin a = +sqrt(1-u^2)   (a in [0, pi])
        atan: cos a = 1/sqrt(1+u^2), sin a = u/sqrt(1+u^2)   (a in (-pi/2, pi/2))
        Collapsing rules (acos(cos b) = b under a range fact) come from `inverse_trig_hook`."""
        h = getattr(self, "inverse_trig_hook", None)
        if h is not None:
            r = h(self, op, u)
            if r is not None:
                return r
        R = self.R
        key = (op, self.fkey(u))
        self.itrig = getattr(self, "itrig", {})
        if key in self.itrig:
            return self.itrig[key]
        # collapsing rules: acos(cos b) = b etc., only under a declared range fact for b (a `requires`)
        for av, (sa, ca_) in list(self.angles.items()):
            rng = getattr(self, "angle_range", {}).get(av)
            if rng is None:
                continue
            sa, ca_ = Frac.of(R, sa), Frac.of(R, ca_)
            if op == "ACOS" and rng in ("0_pi", "0_halfpi") and u.equals(ca_):
                return Frac.of(R, R.vpoly(av))
            if op == "ATAN" and rng in ("0_halfpi", "sym_halfpi") and (u * ca_).equals(sa):
                return Frac.of(R, R.vpoly(av))
            # b in [0, pi) with cos b >= 0 known on this path (learned from a path decision) is b in [0, pi/2]:
            # atan(tan b) = b there as well
            if (op == "ATAN" and rng == "0_pi" and not ca_.den and R.known_nonneg(ca_.num) and (u * ca_).equals(sa)):
                return Frac.of(R, R.vpoly(av))
            if op == "ASIN" and rng in ("0_halfpi", "sym_halfpi") and u.equals(sa):
                return Frac.of(R, R.vpoly(av))
        if u.is_const() and u.const_value() == 0 and op in ("ASIN", "ATAN"):
            return Frac.of(R, 0)
        if u.is_const() and u.const_value() == 1 and op == "ACOS":
            return Frac.of(R, 0)
        one = Frac.of(R, 1)
        u_nonneg = (not u.den or all(R.known_nonneg(f) for f in u.den)) and R.known_nonneg(u.num)
        i = R.var(f"{op.lower()}{len(self.itrig)}", nonneg=(op == "ACOS" or (op in ("ATAN", "ASIN") and u_nonneg)))
        if op == "ASIN":
            s, c = u, self.sqrt(one - u * u)
            R.side.append(("asin_domain", u))
        elif op == "ACOS":
            c, s = u, self.sqrt(one - u * u)
            R.side.append(("acos_domain", u))
        else:
            rho = self.sqrt(one + u * u)
            c, s = one / rho, u / rho
        self.angles[i] = (s, c)
        R.angle_def[i] = (op, u, u_nonneg)
        v = Frac.of(R, R.vpoly(i))
        self.itrig[key] = v
        return v

    def atan2(self, y: Frac, x: Frac) -> Frac:
        h = getattr(self, "atan2_hook", None)
        if h is not None:
            r = h(self, y, x)
            if r is not None:
                return r
        R = self.R
        key = ("ATAN2", self.fkey(y), self.fkey(x))
        self.itrig = getattr(self, "itrig", {})
        if key in self.itrig:
            return self.itrig[key]
        rho = self.sqrt(x * x + y * y)
        if rho.is_zero():
            raise EngineError("atan2(0, 0)")
        i = R.var(f"atan2_{len(self.itrig)}")
        self.angles[i] = (y / rho, x / rho)
        R.angle_def[i] = ("ATAN2", y, x)
        R.side.append(("atan2_nonzero", rho))
        v = Frac.of(R, R.vpoly(i))
        self.itrig[key] = v
        return v


def explore(run, max_paths=64):
    """run(decisions) -> (result, lowerer).  Enumerates paths depth-first.
    Yields (decisions_used, trace, result)."""
    pending = [[]]
    n = 0
    while pending:
        dec = pending.pop()
        result, low = run(list(dec))
        used = low.decisions[: low.cursor]
        n += 1
        if n > max_paths:
            raise EngineError("too many control paths")
        yield used, list(low.trace), result
        # schedule alternatives for decisions taken by default (beyond the prefix given)
        for k in range(len(dec), len(used)):
            if used[k] is True:
                pending.append(used[:k] + [False])
