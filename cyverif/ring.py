"""Exact arithmetic in a quotient polynomial ring Q[atoms]/(relations), with fractions whose
denominators are kept factored.  This is the ALG back end: an identity between two extracted
expressions is *proved* when the normal form of the cross-multiplied difference is 0.

Monomials are packed into Python ints (16 bits per variable), so monomial product = int addition
and int comparison = lex order (later variables are more significant).
"""
from __future__ import annotations

import math
from fractions import Fraction

BITS = 16
MASK = (1 << BITS) - 1


class _FactorTimeout(Exception):
    pass


class EngineError(Exception):
    """the engine cannot express something (unsupported atom etc.) -> UNDECIDED/ERROR, never a violation"""


def _sqfree_split(q: Fraction):
    """q > 0 rational -> (r, m) with q = r^2 * m, m squarefree positive integer"""
    a, b = q.numerator, q.denominator
    n = a * b  # q = a*b / b^2
    m = 1
    r = 1
    f = 2
    x = n
    while f * f <= x and f < 200000:
        cnt = 0
        while x % f == 0:
            x //= f
            cnt += 1
        r *= f ** (cnt // 2)
        if cnt % 2:
            m *= f
        f += 1
    # remaining x is 1, a prime, or (large) product: check perfect square
    s = math.isqrt(x)
    if s * s == x:
        r *= s
    else:
        m *= x
    return Fraction(r, b), m


class Poly:
    __slots__ = ("R", "t", "_key")

    def __init__(self, ring, terms):
        self.R = ring
        self.t = terms  # dict mono -> Fraction (nonzero)
        self._key = None

    # -- basic --
    def key(self):
        if self._key is None:
            self._key = tuple(sorted(self.t.items()))
        return self._key

    def __hash__(self):
        return hash(self.key())

    def __eq__(self, other):
        return isinstance(other, Poly) and self.t == other.t

    def is_zero(self):
        return not self.t

    def is_const(self):
        return not self.t or (len(self.t) == 1 and 0 in self.t)

    def const_value(self):
        return self.t.get(0, Fraction(0))

    def nterms(self):
        return len(self.t)

    def lead(self):
        m = max(self.t)
        return m, self.t[m]

    def __neg__(self):
        return Poly(self.R, {m: -c for m, c in self.t.items()})

    def __add__(self, o):
        if not isinstance(o, Poly):
            o = self.R.const(o)
        if len(self.t) < len(o.t):
            self, o = o, self
        t = dict(self.t)
        for m, c in o.t.items():
            v = t.get(m)
            if v is None:
                t[m] = c
            else:
                v = v + c
                if v:
                    t[m] = v
                else:
                    del t[m]
        return Poly(self.R, t)

    __radd__ = __add__

    def __sub__(self, o):
        if not isinstance(o, Poly):
            o = self.R.const(o)
        return self + (-o)

    def __rsub__(self, o):
        return (-self) + o

    def scale(self, c):
        c = Fraction(c)
        if not c:
            return Poly(self.R, {})
        return Poly(self.R, {m: v * c for m, v in self.t.items()})

    def raw_mul(self, o):
        """product in the free polynomial ring (no reduction)"""
        if len(self.t) > len(o.t):
            self, o = o, self
        t = {}
        ot = list(o.t.items())
        for m1, c1 in self.t.items():
            for m2, c2 in ot:
                m = m1 + m2
                v = t.get(m)
                c = c1 * c2
                if v is None:
                    t[m] = c
                else:
                    v = v + c
                    if v:
                        t[m] = v
                    else:
                        del t[m]
        return Poly(self.R, t)

    def __mul__(self, o):
        if not isinstance(o, Poly):
            return self.scale(o)
        self.R.tick()
        return self.R.reduce(self.raw_mul(o))

    __rmul__ = __mul__

    def __pow__(self, n):
        assert isinstance(n, int) and n >= 0
        r = self.R.const(1)
        b = self
        while n:
            if n & 1:
                r = r * b
            n >>= 1
            if n:
                b = b * b
        return r

    def vars(self):
        vs = set()
        for m in self.t:
            i = 0
            while m:
                if m & MASK:
                    vs.add(i)
                m >>= BITS
                i += 1
        return vs

    def __repr__(self):
        return self.R.show(self)


class Ring:
    def __init__(self, budget_s=None):
        self.names = []
        self.index = {}
        self.rel = {}  # var -> (k, Poly): var^k -> Poly
        self.nonneg = set()  # var indices known >= 0
        self.positive_polys = set()  # Poly keys declared nonneg by a sort/contract ("requires")
        self.positive_list = []  # the same polynomials (for "declared q >= 0, p = q + positive constant" inferences)
        self.roots = {}  # normalised radicand key -> Poly/Frac value of its sqrt
        self.signs = {}  # normalised poly key -> sign var
        self.trig = {}  # angle var -> (s var, c var)
        self.dvar = {}  # derivation: var -> Frac
        self.root_def = {}  # root var -> radicand Poly (for derivation)
        self.angle_def = {}  # inverse-trig angle var -> description
        self._factor_cache = {}
        self._pow_cache = {}
        self.side = []  # side conditions (definedness etc.) recorded during lowering
        self.deadline = None
        self._ticks = 0
        self.assumed_nonzero = []  # denominators (Poly) that appeared

    # ---- budget ----
    def tick(self):
        self._ticks += 1
        if self.deadline is not None and (self._ticks & 63) == 0:
            import time

            if time.time() > self.deadline:
                raise TimeoutError("ring budget exhausted")

    # ---- variables ----
    def var(self, name, nonneg=False):
        if name in self.index:
            i = self.index[name]
        else:
            i = len(self.names)
            self.names.append(name)
            self.index[name] = i
        if nonneg:
            self.nonneg.add(i)
        return i

    def gen(self, name, nonneg=False):
        i = self.var(name, nonneg)
        return Poly(self, {1 << (BITS * i): Fraction(1)})

    def vpoly(self, i):
        return Poly(self, {1 << (BITS * i): Fraction(1)})

    def const(self, c):
        c = Fraction(c)
        return Poly(self, {0: c} if c else {})

    def add_relation(self, var_index, k, poly):
        """rewrite var^k -> poly.  poly must not contain var^j with j >= k."""
        self.rel[var_index] = (k, poly)
        self._pow_cache.clear()

    def exp_of(self, mono, i):
        return (mono >> (BITS * i)) & MASK

    # ---- reduction ----
    def reduce(self, p: Poly) -> Poly:
        if not self.rel:
            return p
        rel = self.rel
        while True:
            bad = None
            for m in p.t:
                for i, (k, _) in rel.items():
                    if ((m >> (BITS * i)) & MASK) >= k:
                        bad = True
                        break
                if bad:
                    break
            if not bad:
                return p
            keep = {}
            extra = []
            for m, c in p.t.items():
                hit = None
                for i, (k, _) in rel.items():
                    e = (m >> (BITS * i)) & MASK
                    if e >= k:
                        hit = (i, k, e)
                        break
                if hit is None:
                    keep[m] = c
                else:
                    i, k, e = hit
                    q, r = divmod(e, k)
                    rest = m - (e << (BITS * i)) + (r << (BITS * i))
                    extra.append((rest, c, i, q))
            acc = Poly(self, keep)
            # group by (i,q)
            groups = {}
            for rest, c, i, q in extra:
                groups.setdefault((i, q), {})
                d = groups[(i, q)]
                d[rest] = d.get(rest, 0) + c
            for (i, q), d in groups.items():
                d = {m: c for m, c in d.items() if c}
                if not d:
                    continue
                pw = self._relpow(i, q)
                acc = acc + Poly(self, d).raw_mul(pw)
            p = acc
            self.tick()

    def _relpow(self, i, q):
        key = (i, q)
        v = self._pow_cache.get(key)
        if v is None:
            base = self.rel[i][1]
            v = self.const(1)
            for _ in range(q):
                v = self.reduce(v.raw_mul(base))
            self._pow_cache[key] = v
        return v

    # ---- exact division in the free ring ----
    def divexact(self, a: Poly, b: Poly):
        if b.is_zero():
            return None
        if a.is_zero():
            return a
        if b.is_const():
            return a.scale(1 / b.const_value())
        if len(b.t) == 1:
            (mb, cb), = b.t.items()
            t = {}
            evs = self._unpack(mb)
            for m, c in a.t.items():
                for i, e in evs:
                    if ((m >> (BITS * i)) & MASK) < e:
                        return None
                t[m - mb] = c / cb
            return Poly(self, t)
        mb, cb = b.lead()
        evs = self._unpack(mb)
        bt = [(m, c) for m, c in b.t.items() if m != mb]
        rem = dict(a.t)
        quo = {}
        # cheap necessary condition
        while rem:
            m = max(rem)
            c = rem[m]
            for i, e in evs:
                if ((m >> (BITS * i)) & MASK) < e:
                    return None
            qm = m - mb
            qc = c / cb
            quo[qm] = qc
            del rem[m]
            for m2, c2 in bt:
                mm = qm + m2
                v = rem.get(mm)
                nv = (v if v is not None else 0) - qc * c2
                if nv:
                    rem[mm] = nv
                elif v is not None:
                    del rem[mm]
            self.tick()
        return Poly(self, quo)

    def _unpack(self, m):
        out = []
        i = 0
        while m:
            e = m & MASK
            if e:
                out.append((i, e))
            m >>= BITS
            i += 1
        return out

    # ---- factorisation through sympy ----
    def factor(self, p: Poly):
        """returns (const, [(Poly irreducible normalised, exp)]) with p = const * prod f^e.
        Each factor is normalised to have leading coefficient +1 (lex lead).
        Large polynomials are factored under an interval timer; when abandoned the polynomial is kept as a single
        factor (sound: factorisation is only an optimisation for cancellation / perfect-square detection)."""
        k = p.key()
        r = self._factor_cache.get(k)
        if r is not None:
            return r
        if p.is_const():
            r = (p.const_value(), [])
        elif len(p.t) == 1:
            (m, c), = p.t.items()
            r = (c, [(self.vpoly(i), e) for i, e in self._unpack(m)])
        else:
            r = None
            if len(p.t) <= 400:
                if getattr(self, "_in_guard", False):
                    r = self._sympy_factor(p)
                else:
                    r = self._guarded_factor(p)
            if r is None:
                lm, lc = p.lead()
                r = (lc, [(p.scale(1 / lc), 1)])
        self._factor_cache[k] = r
        return r

    def _guarded_factor(self, p):
        import signal

        def handler(signum, frame):
            raise _FactorTimeout()

        self._in_guard = True
        old = signal.signal(signal.SIGALRM, handler)
        signal.setitimer(signal.ITIMER_REAL, self.FACTOR_SECONDS)
        try:
            return self._sympy_factor(p)
        except _FactorTimeout:
            return None
        finally:
            signal.setitimer(signal.ITIMER_REAL, 0)
            signal.signal(signal.SIGALRM, old)
            self._in_guard = False

    def _sympy_factor(self, p):
        import sympy

        vs = sorted(p.vars())
        syms = {i: sympy.Symbol(f"v{i}") for i in vs}
        terms = []
        for m, c in p.t.items():
            t = sympy.Rational(c.numerator, c.denominator)
            for i, e in self._unpack(m):
                t = t * syms[i] ** e
            terms.append(t)
        expr = sympy.Add(*terms)
        c0, facs = sympy.factor_list(expr, *[syms[i] for i in vs])
        const = Fraction(int(c0.p), int(c0.q)) if c0.is_Rational else None
        if const is None:
            raise EngineError(f"non-rational content {c0}")
        out = []
        for f, e in facs:
            fp = self._from_sympy_poly(sympy.Poly(f, *[syms[i] for i in vs]), vs)
            lm, lc = fp.lead()
            if lc != 1:
                fp = fp.scale(1 / lc)
                const *= lc ** int(e)
            out.append((fp, int(e)))
        return (const, out)

    FACTOR_SECONDS = 4

    def _from_sympy_poly(self, sp, vs):
        t = {}
        for mon, coeff in sp.terms():
            m = 0
            for i, e in zip(vs, mon):
                m += int(e) << (BITS * i)
            t[m] = Fraction(int(coeff.p), int(coeff.q))
        return Poly(self, t)

    # ---- positivity (syntactic) ----
    def syntactically_nonneg(self, p: Poly, strict=False):
        """every term has a positive coefficient and is a product of even powers / nonneg atoms.
        strict: additionally a positive constant term."""
        if p.is_zero():
            return not strict
        for m, c in p.t.items():
            if c < 0:
                return False
            for i, e in self._unpack(m):
                if e % 2 and i not in self.nonneg:
                    return False
        if strict and p.t.get(0, 0) <= 0:
            return False
        return True

    def known_nonneg(self, p: Poly):
        if self.syntactically_nonneg(p):
            return True
        k = p.key()
        if k in self.positive_polys:
            return True
        # the normal form of a square: a relation v^2 -> q of a real variable v makes q (= v^2) non-negative
        for i, (kk, q) in self.rel.items():
            if kk == 2 and q.key() == k:
                return True
        # p = q + c with q declared non-negative and c a non-negative constant
        for q in self.positive_list:
            d = p - q
            if d.is_const() and d.const_value() >= 0:
                return True
        return False

    def declare_nonneg(self, p: Poly):
        self.positive_polys.add(p.key())
        self.positive_list.append(p)

    # ---- printing ----
    def show(self, p: Poly, maxterms=12):
        if p.is_zero():
            return "0"
        parts = []
        for n, (m, c) in enumerate(sorted(p.t.items(), reverse=True)):
            if n >= maxterms:
                parts.append(f"... ({len(p.t)} terms)")
                break
            mon = "*".join(
                (self.names[i] if e == 1 else f"{self.names[i]}^{e}") for i, e in self._unpack(m)
            )
            cs = str(c)
            parts.append(f"{cs}*{mon}" if mon else cs)
        return " + ".join(parts)


# ---------------------------------------------------------------------------------------


class Frac:
    """num / prod(f^e), f irreducible normalised Polys; always reduced modulo the relations.
    Common factors are cancelled opportunistically by exact division."""

    __slots__ = ("R", "num", "den")

    def __init__(self, ring, num: Poly, den: dict | None = None):
        self.R = ring
        self.num = num
        self.den = den or {}

    @staticmethod
    def of(ring, x):
        if isinstance(x, Frac):
            return x
        if isinstance(x, Poly):
            return Frac(ring, x)
        return Frac(ring, ring.const(x))

    def is_zero(self):
        return self.num.is_zero()

    def is_const(self):
        return not self.den and self.num.is_const()

    def const_value(self):
        assert self.is_const()
        return self.num.const_value()

    def _cancel(self):
        if not self.den:
            return self
        if self.num.is_zero():
            return Frac(self.R, self.num, {})
        num = self.num
        den = {}
        for f, e in self.den.items():
            while e > 0:
                q = self.R.divexact(num, f)
                if q is None:
                    break
                num = q
                e -= 1
            if e:
                den[f] = e
        return Frac(self.R, num, den)

    def den_poly(self, exclude=None):
        p = self.R.const(1)
        for f, e in self.den.items():
            p = p * (f ** e)
        return p

    def __neg__(self):
        return Frac(self.R, -self.num, self.den)

    def __add__(self, o):
        o = Frac.of(self.R, o)
        if not self.den and not o.den:
            return Frac(self.R, self.num + o.num)
        if self.den == o.den:
            return Frac(self.R, self.num + o.num, self.den)._cancel()
        L = dict(self.den)
        for f, e in o.den.items():
            if L.get(f, 0) < e:
                L[f] = e
        a = self.num
        for f, e in L.items():
            d = e - self.den.get(f, 0)
            if d:
                a = a * (f ** d)
        b = o.num
        for f, e in L.items():
            d = e - o.den.get(f, 0)
            if d:
                b = b * (f ** d)
        return Frac(self.R, a + b, L)._cancel()

    __radd__ = __add__

    def __sub__(self, o):
        return self + (-Frac.of(self.R, o))

    def __rsub__(self, o):
        return Frac.of(self.R, o) - self

    def __mul__(self, o):
        o = Frac.of(self.R, o)
        if self.num.is_zero() or o.num.is_zero():
            return Frac(self.R, self.R.const(0))
        # cross-cancel before multiplying
        a, ad = self.num, dict(self.den)
        b, bd = o.num, dict(o.den)
        if bd:
            a, bd = _cancel_into(self.R, a, bd)
        if ad:
            b, ad = _cancel_into(self.R, b, ad)
        den = ad
        for f, e in bd.items():
            den[f] = den.get(f, 0) + e
        return Frac(self.R, a * b, den)

    __rmul__ = __mul__

    def inv(self):
        if self.num.is_zero():
            raise EngineError("division by the zero polynomial")
        c, facs = self.R.factor(self.num)
        num = self.den_poly().scale(1 / c)
        den = {}
        for f, e in facs:
            den[f] = den.get(f, 0) + e
            self.R.assumed_nonzero.append(f)
        return Frac(self.R, num, den)

    def __truediv__(self, o):
        o = Frac.of(self.R, o)
        return self * o.inv()

    def __rtruediv__(self, o):
        return Frac.of(self.R, o) * self.inv()

    def __pow__(self, n):
        if n < 0:
            return self.inv() ** (-n)
        r = Frac(self.R, self.R.const(1))
        for _ in range(n):
            r = r * self
        return r

    def equals(self, o):
        d = self - Frac.of(self.R, o)
        return d.num.is_zero()

    def __repr__(self):
        if not self.den:
            return f"({self.num})"
        return f"({self.num}) / " + "*".join(f"({f})^{e}" for f, e in self.den.items())


def _cancel_into(R, num, den):
    out = {}
    for f, e in den.items():
        while e > 0:
            q = R.divexact(num, f)
            if q is None:
                break
            num = q
            e -= 1
        if e:
            out[f] = e
    return num, out


# ---------------------------------------------------------------------------------------
# matrices of Frac (lists of lists)


def mat(R, rows):
    return [[Frac.of(R, x) for x in row] for row in rows]


def mshape(A):
    return len(A), (len(A[0]) if A else 0)


def mmul(A, B):
    n, k = mshape(A)
    k2, m = mshape(B)
    assert k == k2, (mshape(A), mshape(B))
    R = A[0][0].R
    out = []
    for i in range(n):
        row = []
        for j in range(m):
            s = Frac(R, R.const(0))
            for l in range(k):
                if A[i][l].is_zero() or B[l][j].is_zero():
                    continue
                s = s + A[i][l] * B[l][j]
            row.append(s)
        out.append(row)
    return out


def madd(A, B):
    return [[a + b for a, b in zip(ra, rb)] for ra, rb in zip(A, B)]


def msub(A, B):
    return [[a - b for a, b in zip(ra, rb)] for ra, rb in zip(A, B)]


def mscale(c, A):
    return [[c * a for a in ra] for ra in A]


def mT(A):
    return [list(r) for r in zip(*A)]


def meye(R, n):
    return [[Frac.of(R, 1 if i == j else 0) for j in range(n)] for i in range(n)]


def mzero(R, n, m):
    return [[Frac.of(R, 0) for _ in range(m)] for _ in range(n)]


def mblock(blocks):
    """blocks: list of lists of matrices"""
    out = []
    for brow in blocks:
        nrows = len(brow[0])
        for i in range(nrows):
            row = []
            for b in brow:
                row.extend(b[i])
            out.append(row)
    return out


def hat(R, v):
    """so(3) hat map of a 3-list of Frac"""
    z = Frac.of(R, 0)
    v = [Frac.of(R, x) for x in v]
    return [[z, -v[2], v[1]], [v[2], z, -v[0]], [-v[1], v[0], z]]


def det3(A):
    return (
        A[0][0] * (A[1][1] * A[2][2] - A[1][2] * A[2][1])
        - A[0][1] * (A[1][0] * A[2][2] - A[1][2] * A[2][0])
        + A[0][2] * (A[1][0] * A[2][1] - A[1][1] * A[2][0])
    )
