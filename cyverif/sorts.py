"""Input sorts: the `requires` clauses of contracts, expressed as atoms + relations in the ring,
with a sampler (witness search / replay) and a concrete witness (vacuity guard)."""
from __future__ import annotations

import math
import random
from fractions import Fraction

import casadi as ca

from .ring import Frac, Poly, Ring


class Sort:
    name: str
    shape = (1, 1)

    def sx(self):
        if not hasattr(self, "_sx"):
            self._sx = ca.SX.sym(self.name, *self.shape)
        return self._sx

    def payloads(self):
        r, c = self.shape
        return [(self.name, i, j) for j in range(c) for i in range(r)]

    def bind(self, low) -> dict:
        raise NotImplementedError

    def sample(self, rng: random.Random):
        """returns list of rows (floats), shape self.shape"""
        raise NotImplementedError

    def describe(self):
        return f"{type(self).__name__}({self.name})"

    def dm(self, vals):
        return ca.DM(vals)


def _col(vals):
    return [[v] for v in vals]


class Free(Sort):
    def __init__(self, name, n=1, m=1, scale=2.0, nonneg=False, norm_le=None):
        """norm_le: requires |x|^2 <= norm_le^2 (declared to the ring/SMT as a nonnegative polynomial)"""
        self.name, self.shape, self.scale, self.nonneg, self.norm_le = name, (n, m), scale, nonneg, norm_le

    def bind(self, low):
        R = low.R
        out = {p: Frac.of(R, R.gen(f"{p[0]}_{p[1]}" + (f"_{p[2]}" if self.shape[1] > 1 else ""), nonneg=self.nonneg)) for p in self.payloads()}
        if self.norm_le is not None:
            acc = R.const(Fraction(self.norm_le) ** 2)
            for v in out.values():
                acc = acc - v.num * v.num
            R.declare_nonneg(acc)
        return out

    def describe(self):
        return f"Free({self.name}{list(self.shape)})" + (f" [requires |{self.name}| <= {self.norm_le}]" if self.norm_le is not None else "")

    def sample(self, rng):
        r, c = self.shape
        lo = 0.05 if self.nonneg else -self.scale
        return [[rng.uniform(lo, self.scale) for _ in range(c)] for _ in range(r)]


class Pos(Free):
    """strictly positive scalar(s); the variable is flagged nonneg and every appearance in a
    denominator is justified by the requires clause x > 0"""

    def __init__(self, name, n=1, scale=3.0):
        super().__init__(name, n, 1, scale, nonneg=True)

    def bind(self, low):
        out = super().bind(low)
        R = low.R
        R.positive = getattr(R, "positive", set())
        for v in out.values():
            R.positive |= v.num.vars()
        return out

    def describe(self):
        return f"Pos({self.name}) [requires {self.name} > 0]"


class Const(Sort):
    """an input fixed to given rational constants (e.g. a zero vector, dt = 0)"""

    def __init__(self, name, values):
        self.name = name
        self.values = [[Fraction(v) for v in row] for row in values]
        self.shape = (len(values), len(values[0]))

    def bind(self, low):
        return {(self.name, i, j): Frac.of(low.R, self.values[i][j]) for i in range(self.shape[0]) for j in range(self.shape[1])}

    def sample(self, rng):
        return [[float(v) for v in row] for row in self.values]


class UnitQuat(Sort):
    """q with q.q = 1, either sign.  relation q0^2 -> 1 - q1^2 - q2^2 - q3^2; |q0| = sgn*q0."""

    shape = (4, 1)

    def __init__(self, name, q0_positive=False, q0_min=None):
        self.name = name
        self.q0_positive = q0_positive

    def bind(self, low):
        R = low.R
        q = [R.gen(f"{self.name}{i}", nonneg=(i == 0 and self.q0_positive)) for i in range(4)]
        i0 = R.index[f"{self.name}0"]
        R.add_relation(i0, 2, R.const(1) - q[1] * q[1] - q[2] * q[2] - q[3] * q[3])
        # sqrt(q0^2) = |q0|
        rad = R.reduce(q[0].raw_mul(q[0]))
        low.seed_root(rad, low.abs_poly(q[0]))
        self.q = q
        return {(self.name, i, 0): Frac.of(R, q[i]) for i in range(4)}

    def sample(self, rng):
        while True:
            v = [rng.gauss(0, 1) for _ in range(4)]
            n = math.sqrt(sum(x * x for x in v))
            if n > 1e-3:
                v = [x / n for x in v]
                if self.q0_positive:
                    if abs(v[0]) < 0.05:
                        continue
                    if v[0] < 0:
                        v = [-x for x in v]
                return _col(v)

    def describe(self):
        return f"UnitQuat({self.name}) [requires |{self.name}| = 1" + (", q0 > 0]" if self.q0_positive else ", either sign]")


class RotVec(Sort):
    """rotation vector w (3x1) with angle theta = |w| = k*phi, phi >= 0 a base angle with
    atoms s = sin(phi), c = cos(phi).  relation w2^2 -> k^2 phi^2 - w0^2 - w1^2.
    The closed cell (theta^2 >= 1e-3 etc.) is selected by the trace's cell policy; theta > 0 there."""

    shape = (3, 1)

    def __init__(self, name, k=2, lo=0.2, hi=3.0, phi_range=None):
        """phi_range: None | '0_pi' | '0_halfpi' — a `requires` on the base angle phi = theta/k, enabling the
        collapsing rules acos(cos phi) = phi / atan(tan phi) = phi ('0_halfpi' also gives sin phi, cos phi >= 0)"""
        self.name, self.k, self.lo, self.hi, self.phi_range = name, k, lo, hi, phi_range

    def bind(self, low):
        R = low.R
        w = [R.gen(f"{self.name}{i}") for i in range(3)]
        phi = R.gen(f"phi_{self.name}", nonneg=True)
        s = R.gen(f"s_{self.name}")
        c = R.gen(f"c_{self.name}")
        k = self.k
        R.add_relation(R.index[f"{self.name}2"], 2, phi * phi * (k * k) - w[0] * w[0] - w[1] * w[1])
        R.add_relation(R.index[f"s_{self.name}"], 2, R.const(1) - c * c)
        low.register_angle(R.index[f"phi_{self.name}"], s, c)
        if self.phi_range:
            low.angle_range = getattr(low, "angle_range", {})
            low.angle_range[R.index[f"phi_{self.name}"]] = self.phi_range
            if self.phi_range in ("0_halfpi", "0_quarterpi"):
                R.nonneg.add(R.index[f"s_{self.name}"])
                R.nonneg.add(R.index[f"c_{self.name}"])
                if self.phi_range == "0_quarterpi":
                    R.declare_nonneg(c - s)
                    low.angle_range[R.index[f"phi_{self.name}"]] = "0_halfpi"
            elif self.phi_range == "0_pi":
                R.nonneg.add(R.index[f"s_{self.name}"])
        self.w, self.phi, self.s, self.c = w, phi, s, c
        low.seed_root(R.reduce(s.raw_mul(s)), low.abs_poly(s))
        return {(self.name, i, 0): Frac.of(R, w[i]) for i in range(3)}

    def sample(self, rng):
        th = rng.uniform(self.lo, self.hi)
        v = [rng.gauss(0, 1) for _ in range(3)]
        n = math.sqrt(sum(x * x for x in v)) or 1.0
        return _col([x / n * th for x in v])

    def describe(self):
        return f"RotVec({self.name}) [theta=|{self.name}| in [{self.lo},{self.hi}] for sampling; proof for all theta>0 of the cell; base angle theta/{self.k}]"


class Angle(Sort):
    """scalar angle a = k * phi with atoms s = sin(phi), c = cos(phi) (phi of either sign)"""

    shape = (1, 1)

    def __init__(self, name, k=1, lo=-3.0, hi=3.0, cos_positive=False, cos_nonneg=False):
        """cos_positive: requires the base angle in (-pi/2, pi/2) (cos > 0); cos_nonneg: in [-pi/2, pi/2] (cos >= 0)"""
        self.name, self.k, self.lo, self.hi, self.cos_positive, self.cos_nonneg = name, k, lo, hi, cos_positive, cos_nonneg

    def bind(self, low):
        R = low.R
        phi = R.gen(f"phi_{self.name}")
        s = R.gen(f"s_{self.name}")
        c = R.gen(f"c_{self.name}", nonneg=self.cos_positive or self.cos_nonneg)
        if self.cos_positive:
            R.positive = getattr(R, "positive", set())
            R.positive.add(R.index[f"c_{self.name}"])
        R.add_relation(R.index[f"s_{self.name}"], 2, R.const(1) - c * c)
        low.register_angle(R.index[f"phi_{self.name}"], s, c)
        low.seed_root(R.reduce(s.raw_mul(s)), low.abs_poly(s))
        self.phi, self.s, self.c = phi, s, c
        return {(self.name, 0, 0): Frac.of(R, phi.scale(self.k))}

    def sample(self, rng):
        return [[rng.uniform(self.lo, self.hi)]]


class Angles(Sort):
    """vector of independent angles (e.g. Euler triple)"""

    def __init__(self, name, n, k=1, ranges=None):
        self.name, self.shape, self.k = name, (n, 1), k
        self.ranges = ranges or [(-3.0, 3.0)] * n

    def bind(self, low):
        R = low.R
        out = {}
        self.phi, self.s, self.c = [], [], []
        for i in range(self.shape[0]):
            phi = R.gen(f"phi_{self.name}{i}")
            s = R.gen(f"s_{self.name}{i}")
            c = R.gen(f"c_{self.name}{i}")
            R.add_relation(R.index[f"s_{self.name}{i}"], 2, R.const(1) - c * c)
            low.register_angle(R.index[f"phi_{self.name}{i}"], s, c)
            self.phi.append(phi)
            self.s.append(s)
            self.c.append(c)
            out[(self.name, i, 0)] = Frac.of(R, phi.scale(self.k))
        return out

    def sample(self, rng):
        return _col([rng.uniform(lo, hi) for lo, hi in self.ranges])


class DcmOfQuat(Sort):
    """an orthonormal DCM given as R(q) for a unit quaternion q (lemma L-SO3: every rotation
    matrix is R(q) for a unit q of either sign).  n_param 9 column (column-major reshape, as the
    repo's SO3Dcm does) or a 3x3 matrix."""

    def __init__(self, name, as_matrix=False, q0_positive=False):
        self.name = name
        self.as_matrix = as_matrix
        self.shape = (3, 3) if as_matrix else (9, 1)
        self.qs = UnitQuat(name + "_q", q0_positive=q0_positive)

    @staticmethod
    def rot(q):
        a, b, c, d = q
        return [
            [a * a + b * b - c * c - d * d, (b * c - a * d) * 2, (b * d + a * c) * 2],
            [(b * c + a * d) * 2, a * a + c * c - b * b - d * d, (c * d - a * b) * 2],
            [(b * d - a * c) * 2, (c * d + a * b) * 2, a * a + d * d - b * b - c * c],
        ]

    def bind(self, low):
        self.qs.bind(low)
        q = self.qs.q
        M = self.rot(q)
        self.M = M
        R = low.R
        if self.as_matrix:
            return {(self.name, i, j): Frac.of(R, M[i][j]) for i in range(3) for j in range(3)}
        # casadi reshape((9,1)) of a 3x3 is column-major: index = i + 3*j
        return {(self.name, i + 3 * j, 0): Frac.of(R, M[i][j]) for i in range(3) for j in range(3)}

    def sample(self, rng):
        q = [r[0] for r in self.qs.sample(rng)]
        M = self.rot(q)
        if self.as_matrix:
            return M
        return _col([M[i][j] for j in range(3) for i in range(3)])

    def describe(self):
        return f"Dcm({self.name}) = R(q), |q| = 1 [lemma L-SO3]"


class Expr(Sort):
    """input bound to ring expressions computed from other sorts' atoms (callable given the lowerer)"""

    def __init__(self, name, shape, fn, sampler):
        self.name, self.shape, self.fn, self.sampler = name, shape, fn, sampler

    def bind(self, low):
        vals = self.fn(low)
        return {(self.name, i, j): Frac.of(low.R, vals[i][j]) for i in range(self.shape[0]) for j in range(self.shape[1])}

    def sample(self, rng):
        return self.sampler(rng)


class Composite(Sort):
    """a column vector made of consecutive sub-sorts (e.g. SE(3) element = translation ++ rotation)"""

    def __init__(self, name, parts):
        self.name, self.parts = name, parts
        self.shape = (sum(p.shape[0] for p in parts), 1)
        for p in parts:
            assert p.shape[1] == 1

    def bind(self, low):
        out = {}
        off = 0
        for p in self.parts:
            b = p.bind(low)
            for (nm, i, j), v in b.items():
                out[(self.name, off + i, 0)] = v
            off += p.shape[0]
        return out

    def sample(self, rng):
        rows = []
        for p in self.parts:
            rows.extend(p.sample(rng))
        return rows

    def describe(self):
        return f"Composite({self.name}: " + ", ".join(p.describe() for p in self.parts) + ")"


class PiConst(Sort):
    """the real number pi as a symbolic atom (ring variable `pi`; the SMT side bounds it by 15 digits).
    Needed because double(pi) != pi: range statements such as |log X| <= pi are about the real pi."""

    shape = (1, 1)

    def __init__(self, name="pi"):
        self.name = name

    def bind(self, low):
        R = low.R
        return {(self.name, 0, 0): Frac.of(R, R.gen("pi", nonneg=True))}

    def sample(self, rng):
        return [[math.pi]]


class LowerTri(Sort):
    """n x n lower-triangular symbolic matrix with structural zeros above the diagonal
    (ca.SX.sym(name, Sparsity.lower(n))), as cyecca.util requires for square-root factors.
    diag_positive: requires diag > 0 (invertible factor with positive diagonal)."""

    def __init__(self, name, n, diag_positive=True, scale=1.0):
        self.name, self.n, self.shape, self.diag_positive, self.scale = name, n, (n, n), diag_positive, scale

    def sx(self):
        if not hasattr(self, "_sx"):
            self._sx = ca.SX.sym(self.name, ca.Sparsity.lower(self.n))
        return self._sx

    def bind(self, low):
        R = low.R
        out = {}
        R.positive = getattr(R, "positive", set())
        for j in range(self.n):
            for i in range(j, self.n):
                d = i == j and self.diag_positive
                p = R.gen(f"{self.name}_{i}_{j}", nonneg=d)
                if d:
                    R.positive.add(R.index[f"{self.name}_{i}_{j}"])
                out[(self.name, i, j)] = Frac.of(R, p)
        return out

    def sample(self, rng):
        return [[(rng.uniform(0.5, 1.5) if i == j else rng.uniform(-self.scale, self.scale)) if j <= i else 0.0 for j in range(self.n)]
                for i in range(self.n)]

    def dm(self, vals):
        D = ca.DM(ca.Sparsity.lower(self.n))
        for j in range(self.n):
            for i in range(j, self.n):
                D[i, j] = vals[i][j]
        return D

    def describe(self):
        return f"LowerTri({self.name}, {self.n})" + (" [requires diag > 0]" if self.diag_positive else "")


class Sym(Sort):
    """symmetric n x n matrix (dense symbol, entries (i,j) and (j,i) bound to the same atom)"""

    def __init__(self, name, n, spd_sample=True):
        self.name, self.n, self.shape, self.spd_sample = name, n, (n, n), spd_sample

    def bind(self, low):
        R = low.R
        out = {}
        for i in range(self.n):
            for j in range(i + 1):
                v = Frac.of(R, R.gen(f"{self.name}_{i}_{j}"))
                out[(self.name, i, j)] = v
                out[(self.name, j, i)] = v
        return out

    def sample(self, rng):
        n = self.n
        A = [[rng.uniform(-1, 1) for _ in range(n)] for _ in range(n)]
        # A A^T + I : symmetric positive definite
        return [[sum(A[i][k] * A[j][k] for k in range(n)) + (1.0 if i == j else 0.0) for j in range(n)] for i in range(n)]


class Nilpotent(Free):
    """a scalar eps with eps^(order+1) = 0 in the ring: an identity then means that the Taylor coefficients
    in eps agree through `order` (both sides polynomial in eps).  Sampled small for numeric replay."""

    def __init__(self, name, order, scale=0.02):
        super().__init__(name, 1, 1, scale)
        self.order = order

    def bind(self, low):
        out = super().bind(low)
        R = low.R
        (v,) = out.values()
        (i,) = v.num.vars()
        R.add_relation(i, self.order + 1, R.const(0))
        return out

    def describe(self):
        return f"Nilpotent({self.name}^{self.order + 1} = 0) [Taylor coefficients through order {self.order}]"
