"""Machine-checked proof scripts over abstract real variables.

A nonlinear inequality about the lowered outputs of a trace is often out of reach of z3/cvc5 when stated over all trig /
root atoms at once, although its textbook proof is a short chain of small facts.  An AbstractProof makes that chain
checkable:

  define(name, frac)      an abstract real variable standing for a ring value (polynomial / fraction in the atoms)
  relation(name, fn)      fn(ns) is an expression over the abstract variables; it is accepted only if the RING normalises
                          fn(ring values) to zero (an identity of the real code's values), and is then given to the solver
                          as fn(z3 variables) == 0
  assume(name, fn, why)   a base fact (a `requires` of the cell, non-negativity of a root atom); listed in the evidence
  step(name, using, fn)   the solver must prove fn(z3 variables) from the named relations / facts / earlier steps only
                          (small query, few variables); once proved it can be used by later steps
  express(frac, fn)       the ring checks that `frac` (a lowered output entry) equals fn(ring values); returns fn(z3 variables)

Nothing is trusted beyond the ring normaliser and the solver: a relation that is not an identity, or a step the solver does
not prove, makes the obligation UNDECIDED (never proved, never a violation)."""
from __future__ import annotations

import time
from types import SimpleNamespace

import z3

from . import smt
from .ring import Frac


class ProofFailed(Exception):
    pass


class AbstractProof:
    def __init__(self, low, timeout=20):
        self.low, self.R = low, low.R
        self.ring_ns = SimpleNamespace()
        self.z3_ns = SimpleNamespace()
        self.facts = {}  # name -> z3 formula
        self.log = []
        self.timeout = timeout
        self.seconds = 0.0

    def define(self, name, value):
        v = value if isinstance(value, Frac) else Frac.of(self.R, value)
        setattr(self.ring_ns, name, v)
        setattr(self.z3_ns, name, z3.Real("abs_" + name))

    def _is_zero(self, fr):
        fr = fr if isinstance(fr, Frac) else Frac.of(self.R, fr)
        return fr.num.is_zero()

    def relation(self, name, fn):
        if not self._is_zero(fn(self.ring_ns)):
            raise ProofFailed(f"relation '{name}' is not an identity of the lowered values")
        self.facts[name] = fn(self.z3_ns) == 0
        self.log.append(f"relation {name} [ring]")

    def assume(self, name, fn, why):
        self.facts[name] = fn(self.z3_ns)
        self.log.append(f"assume {name} ({why})")

    def step(self, name, using, fn):
        goal = fn(self.z3_ns)
        t0 = time.time()
        st, _, secs, solver = smt.check([self.facts[u] for u in using], goal, self.timeout, want_model=False)
        self.seconds += time.time() - t0
        if st != "proved":
            raise ProofFailed(f"step '{name}' not proved by the solver ({st})")
        self.facts[name] = goal
        self.log.append(f"step {name} [{solver} {secs:.2f}s]")

    def express(self, frac, fn, what="an output entry"):
        d = frac - fn(self.ring_ns)
        if not self._is_zero(d):
            raise ProofFailed(f"{what} does not equal its abstract expression: lowered value = {self.R.show(frac.num, 8)} / {[self.R.show(f, 4) for f in frac.den]}")
        return fn(self.z3_ns)
