"""Rigorous forward floating-point error analysis of an IR graph over a box (standard model).

For every node n:  R(n) = value in real arithmetic for real inputs x in the box,  C(n) = value computed in IEEE doubles
from inputs perturbed by at most the given input errors.  The analysis returns val(n) (an interval containing R(n) for all
x in the box) and err(n) with |C(n) - R(n)| <= err(n).

Assumption A-FP (stated in the evidence): round-to-nearest doubles, |fl(a op b) - (a op b)| <= U |a op b| with U = 2^-53 for
+ - * / and sqrt (gradual underflow adds at most ETA = 2^-1075 per operation, added to every bound), libm sin / cos / tan /
atan / pow within 1 ulp (relative 2U).
"""
from __future__ import annotations

import math

from .interval import IV, eval_iv, iv_atan, iv_cos, iv_sin, up, dn

U = 2.0 ** -53
ETA = 2.0 ** -1074
INF = math.inf


def use_guards(g, roots):
    """node -> frozenset of condition nodes c such that EVERY use of the node's computed value by the roots goes through
    IF_ELSE_ZERO(c, .) (CasADi masks the value, even a NaN, when c is false).  Nodes are created after their arguments,
    so decreasing id is a reverse topological order."""
    G = {r: frozenset() for r in roots if r is not None}
    todo = sorted(g.ancestors([r for r in roots if r is not None]), reverse=True)
    for n in todo:
        gn = G.get(n)
        if gn is None:
            continue
        op, args, _ = g.nodes[n]
        for k, x in enumerate(args):
            s_ = gn | {args[0]} if (op == "IF_ELSE_ZERO" and k == 1) else gn
            G[x] = s_ if x not in G else (G[x] & s_)
    return G


def _const_of(g, n):
    op, args, payload = g.nodes[n]
    if op == "CONST" and not isinstance(payload, str):
        return float(payload)
    if op == "NEG":
        c = _const_of(g, args[0])
        return None if c is None else -c
    return None


def guard_bounds(g, guards, a):
    """(lo, hi) implied for the COMPUTED value of node a by the conditions in `guards` (each holds in floating point
    whenever the guarded value is used)"""
    lo, hi = -INF, INF
    for c in guards:
        neg = False
        op, args, _ = g.nodes[c]
        while op == "NOT":
            neg = not neg
            c = args[0]
            op, args, _ = g.nodes[c]
        if op not in ("LT", "LE"):
            continue
        x, y = args
        if x == a and _const_of(g, y) is not None:
            k = _const_of(g, y)
            if neg:
                lo = max(lo, k)  # not (a < k)  ->  a >= k
            else:
                hi = min(hi, k)
        elif y == a and _const_of(g, x) is not None:
            k = _const_of(g, x)
            if neg:
                hi = min(hi, k)  # not (k < a)  ->  a <= k
            else:
                lo = max(lo, k)
    return lo, hi


def analyse(g, roots, env_val, env_err, memo=None, hints=None, guards=None):
    """returns dict node -> (IV val, float err).  err = inf when the node cannot be bounded (division by an interval
    containing 0, unsupported operation).  A branch whose condition is not decided uniformly over the box (in real AND in
    floating-point arithmetic) is bounded by the rule  |C - R| <= max(err_then, err_else) + sup |then - else|  (all four
    combinations of the real and the floating-point decision).  `memo` may be passed to continue an earlier analysis with
    the same env (sound as long as no already-evaluated node depends on an env entry that changed)."""
    if memo is None:
        memo = {}
    guards = guards or {}  # use_guards(g, outputs): lets inverse-trig / sqrt domains be justified by the clamps around them
    hints = hints or {}  # node -> IV or node: a proved enclosure / equal expression of the node's REAL value (tightens val only)
    import sys
    sys.setrecursionlimit(100000)

    def rnd(val, p):
        """add the rounding of this operation: computed-before-rounding value lies in val +- p"""
        m = val.mag() + p
        return up(p + U * m + ETA)

    def ev(n):
        if n is None:
            return IV(0.0), 0.0
        r = memo.get(n)
        if r is not None:
            return r
        op, args, payload = g.nodes[n]
        if op == "INPUT":
            r = (IV.of(env_val[payload]), float(env_err.get(payload, 0.0)))
        elif op == "CONST":
            if isinstance(payload, str):
                r = (IV(-INF, INF), INF)
            else:
                f = float(payload)
                r = (IV(f, f), 0.0)
        elif op in ("ADD", "SUB"):
            ite = ite_pattern(args) if op == "ADD" else None
            if ite is not None and cond(ite[0]) is None:
                # if_else(c, a, b) = if_else_zero(c, a) + if_else_zero(!c, b) with an undecided c
                (A, ea), (B, eb) = ev(ite[1]), ev(ite[2])
                val = A.hull(B)
                gap = (A - B).mag()
                z = zone(ite[0])
                if z is not None and math.isfinite(ea) and math.isfinite(eb):
                    # the real and the floating-point decision can differ only where the compared quantity is within its own
                    # error of the constant: sup |then - else| is needed on that zone only
                    xn, Z, ex = z
                    over = {xn: (Z, ex)}
                    if g.nodes[xn][0] == "FABS":
                        # |y| in Z: y in Z or -Z, cut to y's own enclosure
                        yn = g.nodes[xn][1][0]
                        Y, ey = ev(yn)
                        parts = [IV(max(Y.lo, p.lo), min(Y.hi, p.hi)) for p in (Z, -Z) if max(Y.lo, p.lo) <= min(Y.hi, p.hi)]
                        if parts:
                            yz = parts[0]
                            for p in parts[1:]:
                                yz = yz.hull(p)
                            over[yn] = (yz, ey)
                    dep = set()
                    for k in over:
                        dep |= dependants(k)
                    seed = {k: v for k, v in memo.items() if k not in dep}
                    seed.update(over)
                    sub = analyse(g, [ite[1], ite[2]], env_val, env_err, seed, hints, guards)
                    (A2, ea2), (B2, eb2) = sub[ite[1]], sub[ite[2]]
                    if math.isfinite(ea2) and math.isfinite(eb2):
                        gap = min(gap, (A2 - B2).mag())
                r = (val, rnd(val, up(max(ea, eb) + gap)))
            else:
                (A, ea), (B, eb) = ev(args[0]), ev(args[1])
                val = A + B if op == "ADD" else A - B
                r = (val, rnd(val, ea + eb))
        elif op == "MUL":
            (A, ea), (B, eb) = ev(args[0]), ev(args[1])
            val = A.sq() if args[0] == args[1] else A * B
            val = meet(val, flat_product(n))
            p = up(A.mag() * eb + B.mag() * ea + ea * eb)
            r = (val, rnd(val, p))
        elif op == "SQ":
            A, ea = ev(args[0])
            val = A.sq()
            p = up(2 * A.mag() * ea + ea * ea)
            r = (val, rnd(val, p))
        elif op == "TWICE":
            A, ea = ev(args[0])
            r = (A * 2.0, up(2 * ea))
        elif op == "NEG":
            A, ea = ev(args[0])
            r = (-A, ea)
        elif op in ("DIV", "INV"):
            if op == "DIV":
                (A, ea), (B, eb) = ev(args[0]), ev(args[1])
            else:
                (A, ea), (B, eb) = (IV(1.0), 0.0), ev(args[0])
            mb = B.mig()
            mbc = mb - eb
            if mbc <= 0 or not math.isfinite(mbc):
                r = (A / B, INF)
            else:
                val = A / B
                p = up(ea / mbc + A.mag() * eb / (mb * mbc))
                r = (val, rnd(val, p))
        elif op == "SQRT":
            A, ea = ev(args[0])
            val = A.sqrt()
            lo = max(A.lo, 0.0) - ea
            if A.lo - ea < 0 and not fp_nonneg(args[0]) and guard_bounds(g, guards.get(n, ()), args[0])[0] < 0 and clamp_bounds(args[0])[0] < 0:
                r = (val, INF)  # the computed radicand may be negative: NaN
            else:
                if lo > 0:
                    p = up(ea / (2 * math.sqrt(lo)))
                else:
                    p = up(math.sqrt(ea)) if ea > 0 else 0.0
                r = (val, rnd(val, p))
        elif op in ("SIN", "COS"):
            A, ea = ev(args[0])
            val = iv_sin(A) if op == "SIN" else iv_cos(A)
            r = (val, up(ea + 2 * U * (val.mag() + ea) + ETA))
        elif op == "TAN":
            A, ea = ev(args[0])
            Ac = IV(A.lo - ea, A.hi + ea)
            c = iv_cos(Ac)
            val = iv_sin(A) / iv_cos(A)
            if c.mig() <= 0:
                r = (val, INF)
            else:
                p = up(ea / (c.mig() ** 2))
                r = (val, up(p + 2 * U * (val.mag() + p) + ETA))
        elif op == "ATAN":
            A, ea = ev(args[0])
            val = iv_atan(A)
            r = (val, up(ea + 2 * U * (val.mag() + ea) + ETA))
        elif op in ("ASIN", "ACOS"):
            A, ea = ev(args[0])
            m = A.mag() + ea
            lo_, hi_ = max(A.lo, -1.0), min(A.hi, 1.0)
            if op == "ASIN":
                val = IV(dn(dn(math.asin(lo_))), up(up(math.asin(hi_))))
            else:
                val = IV(dn(dn(math.acos(hi_))), up(up(math.acos(lo_))))
            glo, ghi = guard_bounds(g, guards.get(n, ()), args[0])
            clo, chi = clamp_bounds(args[0])  # fmax(fmin(x, 1), -1): the COMPUTED argument is inside the clamp exactly
            glo, ghi = max(glo, clo), min(ghi, chi)
            in_dom = (A.hi + ea <= 1.0 or ghi <= 1.0) and (A.lo - ea >= -1.0 or glo >= -1.0)
            if not in_dom and not normalised_component(args[0]):
                r = (val, INF)  # the computed argument may leave [-1, 1]: NaN
                memo[n] = r
                return r
            if m >= 1.0:
                # the argument may touch +-1: |acos(x) - acos(y)| <= sqrt(2 |x - y|) * (pi/2)/sqrt(2) ... use the Hoelder bound
                p = up(math.pi / 2 * math.sqrt(2 * ea)) if ea > 0 else 0.0
            else:
                p = up(ea / math.sqrt(1.0 - m * m))
                p = min(p, up(math.pi / 2 * math.sqrt(2 * ea)) if ea > 0 else 0.0)
            r = (val, up(p + 2 * U * (val.mag() + p) + ETA))
        elif op == "ATAN2":
            (Y, ey), (X, ex) = ev(args[0]), ev(args[1])
            rho2 = (IV(X.mig() - ex if X.mig() > ex else 0.0) .sq() + IV(Y.mig() - ey if Y.mig() > ey else 0.0).sq()).lo
            if rho2 <= 0:
                # (0, 0) may be reached: atan2 is discontinuous there but its value always lies in [-pi, pi]
                r = (IV(-up(math.pi), up(math.pi)), up(2 * math.pi + 1e-9) if math.isfinite(ex) and math.isfinite(ey) else INF)
            else:
                val = IV(-up(math.pi), up(math.pi))
                if X.lo - ex > 0:  # right half plane: atan(y/x), monotone in both
                    cands = [math.atan2(y, x) for y in (Y.lo, Y.hi) for x in (X.lo, X.hi)]
                    val = IV(dn(dn(min(cands))), up(up(max(cands))))
                p = up((X.mag() * ey + Y.mag() * ex) / rho2)
                r = (val, up(p + 2 * U * (val.mag() + p) + ETA))
        elif op in ("POW", "CONSTPOW"):
            (A, ea), (E, ee) = ev(args[0]), ev(args[1])
            if E.lo == E.hi and ee == 0 and float(E.lo).is_integer() and E.lo >= 0:
                k = int(E.lo)
                val = IV(1.0)
                for _ in range(k):
                    val = val * A
                if k % 2 == 0 and k > 0:
                    val = IV(max(val.lo, 0.0), val.hi)
                p = up(k * (A.mag() + ea) ** max(k - 1, 0) * ea)
                r = (val, up(p + 2 * U * (val.mag() + p) + ETA))
            elif E.lo == E.hi and ee == 0 and A.lo - ea > 0:
                # real exponent of a positive base (libm pow, 1 ulp): monotone enclosure, derivative e a^(e-1)
                ex = E.lo
                lo_, hi_ = (A.lo, A.hi) if ex >= 0 else (A.hi, A.lo)
                val = IV(dn(dn(math.pow(lo_, ex))), up(up(math.pow(hi_, ex))))
                base = (A.lo - ea) if ex - 1 < 0 else (A.hi + ea)
                p = up(abs(ex) * math.pow(base, ex - 1) * ea)
                r = (val, up(p + 2 * U * (val.mag() + p) + ETA))
            else:
                r = (IV(-INF, INF), INF)
        elif op == "FABS":
            A, ea = ev(args[0])
            r = (A.abs(), ea)
        elif op == "IF_ELSE_ZERO":
            c = cond(args[0])
            if c is True:
                r = ev(args[1])
            elif c is False:
                r = (IV(0.0), 0.0)
            else:
                # undecided: real value in {R_v, 0}, computed value in {C_v, 0}
                V, e = ev(args[1])
                r = (V.hull(IV(0.0)), up(V.mag() + e))
        elif op in ("LT", "LE", "EQ", "NE", "NOT", "AND", "OR"):
            c = cond(n)
            r = (IV(1.0), 0.0) if c is True else (IV(0.0), 0.0) if c is False else (IV(0.0, 1.0), INF)
        elif op in ("FMIN", "FMAX"):
            (A, ea), (B, eb) = ev(args[0]), ev(args[1])
            val = IV(min(A.lo, B.lo), min(A.hi, B.hi)) if op == "FMIN" else IV(max(A.lo, B.lo), max(A.hi, B.hi))
            r = (val, max(ea, eb))
        else:
            r = (IV(-INF, INF), INF)
        h = hints.get(n)
        if h is not None:
            hv = h if isinstance(h, IV) else (h(ev) if callable(h) else ev(h)[0])
            if hv is None:
                hv = r[0]
            lo_, hi_ = max(r[0].lo, hv.lo), min(r[0].hi, hv.hi)
            if lo_ <= hi_:
                r = (IV(lo_, hi_), r[1])
        memo[n] = r
        return r

    def zone(c):
        """c (through NOTs) = LT/LE(x, K) or LT/LE(K, x) with K constant: (x, [K - err_x, K + err_x] cut to x's enclosure, err_x)"""
        op, args, _ = g.nodes[c]
        while op == "NOT":
            c = args[0]
            op, args, _ = g.nodes[c]
        if op not in ("LT", "LE"):
            return None
        k0, k1 = _const_of(g, args[0]), _const_of(g, args[1])
        if (k0 is None) == (k1 is None):
            return None
        xn, K = (args[0], k1) if k0 is None else (args[1], k0)
        X, ex = ev(xn)
        if not math.isfinite(ex):
            return None
        lo_, hi_ = max(X.lo, dn(K - ex)), min(X.hi, up(K + ex))
        if lo_ > hi_:
            return None
        return xn, IV(lo_, hi_), ex

    def dependants(xn):
        cache = g.__dict__.setdefault("_fp_dependants", {})
        d = cache.get(xn)
        if d is None:
            users = g.__dict__.get("_fp_users")
            if users is None or users[0] != len(g.nodes):
                u = {}
                for i, (_, args_, _) in enumerate(g.nodes):
                    for x_ in args_:
                        u.setdefault(x_, []).append(i)
                users = (len(g.nodes), u)
                g.__dict__["_fp_users"] = users
                cache.clear()
            d, stack = set(), [xn]
            while stack:
                k = stack.pop()
                if k in d:
                    continue
                d.add(k)
                stack.extend(users[1].get(k, ()))
            cache[xn] = d
        return d

    def clamp_bounds(n):
        """(lo, hi) that the COMPUTED value of node n satisfies whatever the rounding, from fmin / fmax with a constant"""
        op, args, _ = g.nodes[n]
        if op in ("FMIN", "FMAX"):
            (l0, h0), (l1, h1) = clamp_bounds(args[0]), clamp_bounds(args[1])
            if op == "FMIN":   # min(a, b) <= both; >= the smaller lower bound
                return min(l0, l1), min(h0, h1)
            return max(l0, l1), max(h0, h1)
        c = _const_of(g, n)
        if c is not None:
            return c, c
        return -INF, INF

    nn_memo = {}

    def fp_nonneg(n):
        """the COMPUTED value is >= 0 whatever the rounding (monotone rounding, 0 representable)"""
        r = nn_memo.get(n)
        if r is not None:
            return r
        op, args, payload = g.nodes[n]
        if op == "CONST":
            r = not isinstance(payload, str) and payload >= 0
        elif op in ("SQ", "FABS", "SQRT"):
            r = True
        elif op == "MUL":
            r = args[0] == args[1] or (fp_nonneg(args[0]) and fp_nonneg(args[1]))
        elif op in ("ADD", "DIV", "FMIN"):
            r = fp_nonneg(args[0]) and fp_nonneg(args[1])
        elif op == "FMAX":
            r = fp_nonneg(args[0]) or fp_nonneg(args[1])
        elif op in ("TWICE", "INV"):
            r = fp_nonneg(args[0])
        elif op == "IF_ELSE_ZERO":
            r = fp_nonneg(args[1])
        elif op in ("LT", "LE", "EQ", "NE", "NOT", "AND", "OR"):
            r = True
        else:
            r = False
        nn_memo[n] = r
        return r

    def normalised_component(a):
        """a = +-x / sqrt(... + x^2 + ...) (possibly through the sign selection if_else(c, -t, t)): lemma L-NORMALIZE
        (binary IEEE arithmetic, no underflow of x^2): fl(sqrt(fl(sum))) >= |x| because sqrt(fl(x^2)) rounds to |x| and
        rounding is monotone, hence |fl(x / .)| <= 1"""
        op, args, _ = g.nodes[a]
        if op == "NEG":
            return normalised_component(args[0])
        if op == "ADD":
            ite = ite_pattern(args)
            if ite is not None:
                return normalised_component(ite[1]) and normalised_component(ite[2])
            return False
        if op != "DIV":
            return False
        x, d = args
        if g.nodes[d][0] != "SQRT":
            return False
        leaves, stack = [], [g.nodes[d][1][0]]
        while stack:
            k = stack.pop()
            o2, a2, _ = g.nodes[k]
            if o2 == "ADD":
                stack.extend(a2)
            else:
                leaves.append(k)
        if not all(fp_nonneg(k) for k in leaves):
            return False
        ok = any((g.nodes[k][0] == "SQ" and g.nodes[k][1][0] == x) or (g.nodes[k][0] == "MUL" and g.nodes[k][1] == (x, x)) for k in leaves)
        if not ok:
            return False
        # x^2 underflowing is harmless as long as the whole sum does not (then |x| / norm << 1); overflow excluded by the bound
        S, es = ev(g.nodes[d][1][0])
        return S.lo - es > 1e-290 and S.hi + es < 1e290

    flat_memo = {}

    def flat(n):
        """(sign, {leaf: multiplicity}) of a product tree of MUL / NEG / SQ nodes"""
        r = flat_memo.get(n)
        if r is not None:
            return r
        op, args, _ = g.nodes[n]
        if op == "MUL":
            (s1, f1), (s2, f2) = flat(args[0]), flat(args[1])
            f = dict(f1)
            for k, v in f2.items():
                f[k] = f.get(k, 0) + v
            r = (s1 * s2, f)
        elif op == "NEG":
            s1, f1 = flat(args[0])
            r = (-s1, f1)
        elif op == "SQ":
            s1, f1 = flat(args[0])
            r = (1, {k: 2 * v for k, v in f1.items()})
        else:
            r = (1, {n: 1})
        flat_memo[n] = r
        return r

    def flat_product(n):
        """enclosure of the real value of a product tree with repeated factors paired into even powers"""
        sgn, f = flat(n)
        if all(v == 1 for v in f.values()):
            return None
        val = IV(1.0)
        for leaf, k in f.items():
            A = ev(leaf)[0]
            if k % 2 == 0:
                B = A.abs()
                P = IV(dn(B.lo ** k) if B.lo > 0 else 0.0, up(B.hi ** k))
            elif k == 1:
                P = A
            else:
                P = IV(dn(min(A.lo ** k, A.hi ** k)), up(max(A.lo ** k, A.hi ** k)))  # odd power: monotone
            val = val * P
        return val if sgn > 0 else -val

    def meet(a, b):
        if b is None:
            return a
        lo, hi = max(a.lo, b.lo), min(a.hi, b.hi)
        return IV(lo, hi) if lo <= hi else a

    def ite_pattern(args):
        a0, a1 = g.nodes[args[0]], g.nodes[args[1]]
        if a0[0] != "IF_ELSE_ZERO" or a1[0] != "IF_ELSE_ZERO":
            return None
        c0, c1 = a0[1][0], a1[1][0]
        if g.nodes[c1][0] == "NOT" and g.nodes[c1][1][0] == c0:
            return c0, a0[1][1], a1[1][1]
        if g.nodes[c0][0] == "NOT" and g.nodes[c0][1][0] == c1:
            return c1, a1[1][1], a0[1][1]
        return None

    def cond(n):
        """True / False when the decision is the same in real and in floating-point arithmetic over the whole box, else None"""
        op, args, _ = g.nodes[n]
        if op == "NOT":
            c = cond(args[0])
            return None if c is None else (not c)
        if op == "AND":
            a, b = cond(args[0]), cond(args[1])
            if a is False or b is False:
                return False
            return True if (a is True and b is True) else None
        if op == "OR":
            a, b = cond(args[0]), cond(args[1])
            if a is True or b is True:
                return True
            return False if (a is False and b is False) else None
        if op in ("LT", "LE"):
            (A, ea), (B, eb) = ev(args[0]), ev(args[1])
            if not (math.isfinite(ea) and math.isfinite(eb)):
                return None
            if A.hi + ea < B.lo - eb:
                return True
            if A.lo - ea > B.hi + eb:
                return False
            return None
        return None

    for r_ in roots:
        if r_ is not None:
            ev(r_)
    return memo
