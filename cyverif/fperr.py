"""Rigorous forward floating-point error analysis of an IR graph over a box (standard model).

For every node n:  R(n) = value in real arithmetic for real inputs x in the box,  C(n) = value computed in IEEE doubles
from inputs perturbed by at most the given input errors.  The analysis returns val(n) (an interval containing R(n) for all
x in the box) and err(n) with |C(n) - R(n)| <= err(n).

Assumption A-FP (stated in the evidence): round-to-nearest doubles, |fl(a op b) - (a op b)| <= U |a op b| with U = 2^-53 for
+ - * / and sqrt (gradual underflow adds at most ETA = 2^-1075 per operation, added to every bound), libm sin / cos / tan /
atan / pow within 1 ulp (relative 2U).
"""
from __future__ import annotations

import math

from .interval import IV, eval_iv, iv_atan, iv_cos, iv_sin, up, dn

U = 2.0 ** -53
ETA = 2.0 ** -1074
INF = math.inf


def analyse(g, roots, env_val, env_err):
    """returns dict node -> (IV val, float err).  err = inf when the node cannot be bounded (undetermined branch,
    division by an interval containing 0, inverse trig near its singular points)"""
    memo = {}
    import sys
    sys.setrecursionlimit(100000)

    def rnd(val, p):
        """add the rounding of this operation: computed-before-rounding value lies in val +- p"""
        m = val.mag() + p
        return up(p + U * m + ETA)

    def ev(n):
        if n is None:
            return IV(0.0), 0.0
        r = memo.get(n)
        if r is not None:
            return r
        op, args, payload = g.nodes[n]
        if op == "INPUT":
            r = (IV.of(env_val[payload]), float(env_err.get(payload, 0.0)))
        elif op == "CONST":
            if isinstance(payload, str):
                r = (IV(-INF, INF), INF)
            else:
                f = float(payload)
                r = (IV(f, f), 0.0)
        elif op in ("ADD", "SUB"):
            (A, ea), (B, eb) = ev(args[0]), ev(args[1])
            val = A + B if op == "ADD" else A - B
            r = (val, rnd(val, ea + eb))
        elif op == "MUL":
            (A, ea), (B, eb) = ev(args[0]), ev(args[1])
            val = A.sq() if args[0] == args[1] else A * B
            p = up(A.mag() * eb + B.mag() * ea + ea * eb)
            r = (val, rnd(val, p))
        elif op == "SQ":
            A, ea = ev(args[0])
            val = A.sq()
            p = up(2 * A.mag() * ea + ea * ea)
            r = (val, rnd(val, p))
        elif op == "TWICE":
            A, ea = ev(args[0])
            r = (A * 2.0, up(2 * ea))
        elif op == "NEG":
            A, ea = ev(args[0])
            r = (-A, ea)
        elif op in ("DIV", "INV"):
            if op == "DIV":
                (A, ea), (B, eb) = ev(args[0]), ev(args[1])
            else:
                (A, ea), (B, eb) = (IV(1.0), 0.0), ev(args[0])
            mb = B.mig()
            mbc = mb - eb
            if mbc <= 0 or not math.isfinite(mbc):
                r = (A / B, INF)
            else:
                val = A / B
                p = up(ea / mbc + A.mag() * eb / (mb * mbc))
                r = (val, rnd(val, p))
        elif op == "SQRT":
            A, ea = ev(args[0])
            val = A.sqrt()
            lo = max(A.lo, 0.0) - ea
            if lo > 0:
                p = up(ea / (2 * math.sqrt(lo)))
            else:
                p = up(math.sqrt(ea)) if ea > 0 else 0.0
            r = (val, rnd(val, p))
        elif op in ("SIN", "COS"):
            A, ea = ev(args[0])
            val = iv_sin(A) if op == "SIN" else iv_cos(A)
            r = (val, up(ea + 2 * U * (val.mag() + ea) + ETA))
        elif op == "TAN":
            A, ea = ev(args[0])
            Ac = IV(A.lo - ea, A.hi + ea)
            c = iv_cos(Ac)
            val = iv_sin(A) / iv_cos(A)
            if c.mig() <= 0:
                r = (val, INF)
            else:
                p = up(ea / (c.mig() ** 2))
                r = (val, up(p + 2 * U * (val.mag() + p) + ETA))
        elif op == "ATAN":
            A, ea = ev(args[0])
            val = iv_atan(A)
            r = (val, up(ea + 2 * U * (val.mag() + ea) + ETA))
        elif op in ("ASIN", "ACOS"):
            A, ea = ev(args[0])
            m = A.mag() + ea
            lo_, hi_ = max(A.lo, -1.0), min(A.hi, 1.0)
            if op == "ASIN":
                val = IV(dn(dn(math.asin(lo_))), up(up(math.asin(hi_))))
            else:
                val = IV(dn(dn(math.acos(hi_))), up(up(math.acos(lo_))))
            if m >= 1.0:
                # the argument may touch +-1: |acos(x) - acos(y)| <= sqrt(2 |x - y|) * (pi/2)/sqrt(2) ... use the Hoelder bound
                p = up(math.pi / 2 * math.sqrt(2 * ea)) if ea > 0 else 0.0
            else:
                p = up(ea / math.sqrt(1.0 - m * m))
                p = min(p, up(math.pi / 2 * math.sqrt(2 * ea)) if ea > 0 else 0.0)
            r = (val, up(p + 2 * U * (val.mag() + p) + ETA))
        elif op == "ATAN2":
            (Y, ey), (X, ex) = ev(args[0]), ev(args[1])
            rho2 = (IV(X.mig() - ex if X.mig() > ex else 0.0) .sq() + IV(Y.mig() - ey if Y.mig() > ey else 0.0).sq()).lo
            if rho2 <= 0:
                r = (IV(-math.pi, math.pi), INF)
            else:
                val = IV(-up(math.pi), up(math.pi))
                if X.lo - ex > 0:  # right half plane: atan(y/x), monotone in both
                    cands = [math.atan2(y, x) for y in (Y.lo, Y.hi) for x in (X.lo, X.hi)]
                    val = IV(dn(dn(min(cands))), up(up(max(cands))))
                p = up((X.mag() * ey + Y.mag() * ex) / rho2)
                r = (val, up(p + 2 * U * (val.mag() + p) + ETA))
        elif op in ("POW", "CONSTPOW"):
            (A, ea), (E, ee) = ev(args[0]), ev(args[1])
            if E.lo == E.hi and ee == 0 and float(E.lo).is_integer() and E.lo >= 0:
                k = int(E.lo)
                val = IV(1.0)
                for _ in range(k):
                    val = val * A
                if k % 2 == 0 and k > 0:
                    val = IV(max(val.lo, 0.0), val.hi)
                p = up(k * (A.mag() + ea) ** max(k - 1, 0) * ea)
                r = (val, up(p + 2 * U * (val.mag() + p) + ETA))
            elif E.lo == E.hi and ee == 0 and A.lo - ea > 0:
                # real exponent of a positive base (libm pow, 1 ulp): monotone enclosure, derivative e a^(e-1)
                ex = E.lo
                lo_, hi_ = (A.lo, A.hi) if ex >= 0 else (A.hi, A.lo)
                val = IV(dn(dn(math.pow(lo_, ex))), up(up(math.pow(hi_, ex))))
                base = (A.lo - ea) if ex - 1 < 0 else (A.hi + ea)
                p = up(abs(ex) * math.pow(base, ex - 1) * ea)
                r = (val, up(p + 2 * U * (val.mag() + p) + ETA))
            else:
                r = (IV(-INF, INF), INF)
        elif op == "FABS":
            A, ea = ev(args[0])
            r = (A.abs(), ea)
        elif op == "IF_ELSE_ZERO":
            c = cond(args[0])
            if c is True:
                r = ev(args[1])
            elif c is False:
                r = (IV(0.0), 0.0)
            else:
                V, e = ev(args[1])
                r = (V.hull(IV(0.0)), INF)
        elif op in ("LT", "LE", "EQ", "NE", "NOT", "AND", "OR"):
            c = cond(n)
            r = (IV(1.0), 0.0) if c is True else (IV(0.0), 0.0) if c is False else (IV(0.0, 1.0), INF)
        elif op in ("FMIN", "FMAX"):
            (A, ea), (B, eb) = ev(args[0]), ev(args[1])
            val = IV(min(A.lo, B.lo), min(A.hi, B.hi)) if op == "FMIN" else IV(max(A.lo, B.lo), max(A.hi, B.hi))
            r = (val, max(ea, eb))
        else:
            r = (IV(-INF, INF), INF)
        memo[n] = r
        return r

    def cond(n):
        """True / False when the decision is the same in real and in floating-point arithmetic over the whole box, else None"""
        op, args, _ = g.nodes[n]
        if op == "NOT":
            c = cond(args[0])
            return None if c is None else (not c)
        if op == "AND":
            a, b = cond(args[0]), cond(args[1])
            if a is False or b is False:
                return False
            return True if (a is True and b is True) else None
        if op == "OR":
            a, b = cond(args[0]), cond(args[1])
            if a is True or b is True:
                return True
            return False if (a is False and b is False) else None
        if op in ("LT", "LE"):
            (A, ea), (B, eb) = ev(args[0]), ev(args[1])
            if not (math.isfinite(ea) and math.isfinite(eb)):
                return None
            if A.hi + ea < B.lo - eb:
                return True
            if A.lo - ea > B.hi + eb:
                return False
            return None
        return None

    for r_ in roots:
        if r_ is not None:
            ev(r_)
    return memo
