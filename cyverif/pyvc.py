"""Verification-condition generation for a small subset of plain Python, from the `ast` of the REAL source
(inspect.getsource, re-read on every run), discharged with z3.

Subset: assignments to names / attributes / subscripts, attribute and subscript reads on a field-map heap,
if / elif / else, raise, return, assert, `for x in <list>` (with a sidecar loop invariant), isinstance, in / not in,
comparisons and + - * on reals, `not`/and/or, calls.  Calls are either (a) *ghost events*: the call is recorded in a
ghost trace (callee, args, path condition at the call) — used for callbacks and for the CasADi step functions, or
(b) *opaque*: return a fresh value and, by the stated frame assumption, do not write tracked state.

Assumed Python semantics (listed in the evidence): attribute access and dict/list operations are the built-in ones,
no aliasing between distinct abstract objects, beartype wrappers transparent, evaluation order left-to-right.
Anything outside the subset raises Unsupported -> the contract is reported as not in reach (never a silent pass).
"""
from __future__ import annotations

import ast
import inspect
import itertools
import textwrap

import z3


class Unsupported(Exception):
    pass


class Opaque:
    """a value the executor knows nothing about"""
    _n = itertools.count()

    def __init__(self, hint=""):
        self.hint = hint
        self.id = next(Opaque._n)

    def __repr__(self):
        return f"<opaque {self.hint}#{self.id}>"


class Obj:
    """abstract object identified by a z3 Int (identity) with named fields in the heap"""

    def __init__(self, name, ident=None):
        self.name = name
        self.ident = ident if ident is not None else z3.Int("obj_" + name)

    def __repr__(self):
        return f"<obj {self.name}>"


class _NoArg:
    ident = z3.IntVal(-1)

    def __repr__(self):
        return "<no argument>"


NO_ARG = _NoArg()


class SymList:
    """list of object identities: z3 array Int -> Int plus length"""

    def __init__(self, name):
        self.arr = z3.Array("list_" + name, z3.IntSort(), z3.IntSort())
        self.n = z3.Int("len_" + name)
        self.name = name


class SymDict:
    """dict from abstract keys (z3 Int) to a per-key SymList family: domain predicate + list arrays indexed by key"""

    def __init__(self, name):
        self.name = name
        self.dom = z3.Array("dom_" + name, z3.IntSort(), z3.BoolSort())
        self.lists = z3.Array("lists_" + name, z3.IntSort(), z3.ArraySort(z3.IntSort(), z3.IntSort()))
        self.lens = z3.Array("lens_" + name, z3.IntSort(), z3.IntSort())

    def copy(self):
        d = SymDict.__new__(SymDict)
        d.name, d.dom, d.lists, d.lens = self.name, self.dom, self.lists, self.lens
        return d


class Event:
    def __init__(self, callee, args, pc, kind="call"):
        self.callee, self.args, self.pc, self.kind = callee, args, list(pc), kind


class State:
    def __init__(self):
        self.locals = {}
        self.heap = {}  # (obj name, field) -> value
        self.pc = []
        self.events = []
        self.outcome = None  # None | ("return", v) | ("raise", exc name)
        # ghost trace of callback deliveries as (array of (callee id, arg id), length)
        self.tr_callee = z3.Array("tr_callee0", z3.IntSort(), z3.IntSort())
        self.tr_arg = z3.Array("tr_arg0", z3.IntSort(), z3.IntSort())
        self.tr_len = z3.Int("tr_len0")
        self.vcs = []  # (name, assumptions, goal)

    def fork(self):
        s = State.__new__(State)
        s.locals = dict(self.locals)
        s.heap = {k: (v.copy() if isinstance(v, SymDict) else v) for k, v in self.heap.items()}
        s.pc = list(self.pc)
        s.events = list(self.events)
        s.outcome = self.outcome
        s.tr_callee, s.tr_arg, s.tr_len = self.tr_callee, self.tr_arg, self.tr_len
        s.vcs = self.vcs  # shared: VCs generated on any path are collected
        return s


class Executor:
    def __init__(self, fn, event_calls=(), loop_invariants=None, opaque_ok=True, max_paths=512):
        """event_calls: predicate(call description str) -> event kind or None"""
        self.fn = fn
        src = textwrap.dedent(inspect.getsource(fn))
        self.tree = ast.parse(src).body[0]
        self.source = src
        self.event_calls = event_calls
        self.loop_invariants = loop_invariants or {}
        self.max_paths = max_paths
        self.fresh = itertools.count()

    def real(self, hint):
        return z3.Real(f"{hint}!{next(self.fresh)}")

    def boolean(self, hint):
        return z3.Bool(f"{hint}!{next(self.fresh)}")

    # ---------------------------------------------------------------- statements
    def run(self, state: State):
        return self.block(self.tree.body, [state])

    def block(self, stmts, states):
        for st in stmts:
            nxt = []
            for s in states:
                if s.outcome is not None:
                    nxt.append(s)
                else:
                    nxt.extend(self.stmt(st, s))
            states = nxt
            if len(states) > self.max_paths:
                raise Unsupported("too many paths")
        return states

    def stmt(self, st, s: State):
        if isinstance(st, ast.Expr):
            if isinstance(st.value, ast.Constant):
                return [s]  # docstring
            self.expr(st.value, s)
            return [s]
        if isinstance(st, ast.Assign):
            v = self.expr(st.value, s)
            for tgt in st.targets:
                self.assign(tgt, v, s)
            return [s]
        if isinstance(st, ast.AugAssign):
            cur = self.expr(st.target, s)
            v = self.binop(st.op, cur, self.expr(st.value, s))
            self.assign(st.target, v, s)
            return [s]
        if isinstance(st, ast.Return):
            s.outcome = ("return", self.expr(st.value, s) if st.value is not None else None)
            return [s]
        if isinstance(st, ast.Raise):
            name = "Exception"
            if isinstance(st.exc, ast.Call) and isinstance(st.exc.func, ast.Name):
                name = st.exc.func.id
            elif isinstance(st.exc, ast.Name):
                name = st.exc.id
            s.outcome = ("raise", name)
            return [s]
        if isinstance(st, ast.Pass):
            return [s]
        if isinstance(st, ast.Assert):
            c = self.cond(st.test, s)
            bad = s.fork()
            bad.pc.append(z3.Not(c))
            bad.outcome = ("raise", "AssertionError")
            s.pc.append(c)
            return [s, bad]
        if isinstance(st, ast.If):
            c = self.cond(st.test, s)
            a, b = s, s.fork()
            a.pc.append(c)
            b.pc.append(z3.Not(c))
            out = []
            for branch, body in ((a, st.body), (b, st.orelse)):
                if self.feasible(branch):
                    out.extend(self.block(body, [branch]))
            return out
        if isinstance(st, ast.For):
            return self.for_loop(st, s)
        if isinstance(st, ast.While) and isinstance(st.test, ast.Constant) and st.test.value is True:
            # generator main loop `while True: ... yield ...`: ONE iteration is executed from an arbitrary state
            # (the per-resumption contract); the loop itself is the assumed scheduler contract
            s.events.append(Event("iteration-start", [], s.pc, kind="iter"))
            out = self.block(st.body, [s])
            for o in out:
                if o.outcome is None:
                    o.outcome = ("iteration-end", None)
            return out
        raise Unsupported(f"statement {type(st).__name__} at line {st.lineno}")

    def feasible(self, s):
        sol = z3.Solver()
        sol.set("timeout", 2000)
        for c in s.pc:
            sol.add(c)
        return sol.check() != z3.unsat

    # ---------------------------------------------------------------- loops
    def for_loop(self, st, s):
        it = self.expr(st.iter, s)
        if isinstance(it, list):  # concrete python list of abstract objects: unroll
            states = [s]
            for item in it:
                nxt = []
                for ss in states:
                    if ss.outcome is None:
                        ss.locals[st.target.id] = item
                        nxt.extend(self.block(st.body, [ss]))
                    else:
                        nxt.append(ss)
                states = nxt
            return states
        if isinstance(it, Opaque):
            # an unknown value that is iterated: an ARBITRARY list (sound over-approximation of any cached / aliased list)
            it = SymList(f"opaque{it.id}")
        if not isinstance(it, SymList):
            raise Unsupported("for over a non-list value")
        # invariant rule on the ghost delivery trace.  The body must be a single ghost callback `x.callback(arg)`.
        if not (len(st.body) == 1 and isinstance(st.body[0], ast.Expr) and isinstance(st.body[0].value, ast.Call)):
            raise Unsupported("loop body outside the supported shape")
        call = st.body[0].value
        if not (isinstance(call.func, ast.Attribute) and isinstance(call.func.value, ast.Name) and call.func.value.id == st.target.id and len(call.args) <= 1
                and not call.keywords):
            raise Unsupported("loop body must be `<loop var>.<method>(<arg>)` or `<loop var>.<method>()`")
        if call.args:
            arg = self.expr(call.args[0], s)
            if not isinstance(arg, Obj):
                raise Unsupported("callback argument must be an abstract object")
        else:
            arg = NO_ARG  # ghost trace records (receiver, no argument)
        n, L = it.n, it.arr
        len0, c0, a0 = s.tr_len, s.tr_callee, s.tr_arg
        i = z3.Int(f"i!{next(self.fresh)}")
        ci = z3.Array(f"tr_callee!{next(self.fresh)}", z3.IntSort(), z3.IntSort())
        ai = z3.Array(f"tr_arg!{next(self.fresh)}", z3.IntSort(), z3.IntSort())
        li = z3.Int(f"tr_len!{next(self.fresh)}")
        j, k = z3.Ints("j k")

        def inv(ii, cc, aa, ll):
            return z3.And(ii >= 0, ii <= n, ll == len0 + ii,
                          z3.ForAll([j], z3.Implies(z3.And(j >= 0, j < ii), z3.And(cc[len0 + j] == L[j], aa[len0 + j] == arg.ident))),
                          z3.ForAll([k], z3.Implies(z3.And(k >= 0, k < len0), z3.And(cc[k] == c0[k], aa[k] == a0[k]))))

        base = list(s.pc) + [n >= 0, len0 >= 0]
        # init
        s.vcs.append((f"loop@{st.lineno}: invariant holds on entry", base, inv(z3.IntVal(0), c0, a0, len0)))
        # preservation: one iteration = deliver (L[i], arg): append to the trace
        c1, a1, l1 = z3.Store(ci, li, L[i]), z3.Store(ai, li, arg.ident), li + 1
        s.vcs.append((f"loop@{st.lineno}: invariant preserved by one delivery", base + [inv(i, ci, ai, li), i < n], inv(i + 1, c1, a1, l1)))
        # exit: havoc trace, assume invariant at i = n
        cE = z3.Array(f"tr_calleeE!{next(self.fresh)}", z3.IntSort(), z3.IntSort())
        aE = z3.Array(f"tr_argE!{next(self.fresh)}", z3.IntSort(), z3.IntSort())
        lE = z3.Int(f"tr_lenE!{next(self.fresh)}")
        s.pc.append(inv(n, cE, aE, lE))
        s.pc.append(n >= 0)
        # two ground instances of the exit invariant (first and last delivery): consequences of the line above, spelled out
        # because quantifier instantiation on `len0 + j` is fragile in the solver
        s.pc.append(z3.Implies(n > 0, z3.And(cE[len0] == L[0], aE[len0] == arg.ident, cE[len0 + n - 1] == L[n - 1], aE[len0 + n - 1] == arg.ident)))
        s.tr_callee, s.tr_arg, s.tr_len = cE, aE, lE
        s.events.append(Event(f"loop-deliveries:{call.func.attr}", [it, arg], s.pc, kind="loop"))
        return [s]

    # ---------------------------------------------------------------- assignment
    def assign(self, tgt, v, s):
        if isinstance(tgt, ast.Name):
            s.locals[tgt.id] = v
            return
        if isinstance(tgt, ast.Tuple):
            for k, e in enumerate(tgt.elts):
                self.assign(e, Opaque(f"tuple[{k}]") if not isinstance(v, (list, tuple)) else v[k], s)
            return
        if isinstance(tgt, ast.Attribute):
            base = self.expr(tgt.value, s)
            if isinstance(base, Obj):
                s.heap[(base.name, tgt.attr)] = v
                s.events.append(Event("write", [base.name, tgt.attr, v], s.pc, kind="write"))
            return
        if isinstance(tgt, ast.Subscript):
            base = self.expr(tgt.value, s)
            key = self.expr(tgt.slice, s)
            if isinstance(base, SymDict):
                hook = getattr(self, "dict_store", None)
                if hook:
                    hook(self, s, tgt, base, key, v)
                    return
                raise Unsupported("store into symbolic dict")
            if isinstance(base, dict):
                base[self.keyof(key)] = v
                return
            return  # write into an untracked structure (message payloads etc.): ignored (frame assumption)
        raise Unsupported(f"assignment target {type(tgt).__name__}")

    @staticmethod
    def keyof(k):
        return k if isinstance(k, (str, int, float)) else repr(k)

    # ---------------------------------------------------------------- expressions
    def cond(self, e, s):
        v = self.expr(e, s)
        return self.truthy(v)

    def truthy(self, v):
        if isinstance(v, bool):
            return z3.BoolVal(v)
        if z3.is_bool(v):
            return v
        if z3.is_expr(v):
            return v != 0
        if v is None:
            return z3.BoolVal(False)
        if isinstance(v, Obj):
            return z3.BoolVal(True)
        return self.boolean("truthy")

    def expr(self, e, s):
        if isinstance(e, ast.Constant):
            v = e.value
            if isinstance(v, bool) or v is None or isinstance(v, str):
                return v
            if isinstance(v, (int, float)):
                from fractions import Fraction
                return z3.RealVal(str(Fraction(v))) if isinstance(v, float) else z3.RealVal(v)
            return Opaque("const")
        if isinstance(e, ast.Name):
            if e.id in s.locals:
                return s.locals[e.id]
            return Opaque(e.id)
        if isinstance(e, ast.Attribute):
            base = self.expr(e.value, s)
            if isinstance(base, Obj):
                key = (base.name, e.attr)
                if key not in s.heap:
                    s.heap[key] = Opaque(f"{base.name}.{e.attr}")
                return s.heap[key]
            return Opaque(f"attr {e.attr}")
        if isinstance(e, ast.Subscript):
            base = self.expr(e.value, s)
            key = self.expr(e.slice, s)
            if isinstance(base, SymDict):
                if not z3.is_expr(key):
                    raise Unsupported("dict key not symbolic")
                L = SymList.__new__(SymList)
                L.arr, L.n, L.name = base.lists[key], base.lens[key], f"{base.name}[{key}]"
                return L
            if isinstance(base, dict):
                k = self.keyof(key)
                if k not in base:
                    base[k] = Opaque(f"[{k}]")
                return base[k]
            return Opaque("subscript")
        if isinstance(e, ast.UnaryOp):
            v = self.expr(e.operand, s)
            if isinstance(e.op, ast.Not):
                return z3.Not(self.truthy(v))
            if isinstance(e.op, ast.USub) and z3.is_expr(v):
                return -v
            return Opaque("unary")
        if isinstance(e, ast.BoolOp):
            vs = [self.truthy(self.expr(x, s)) for x in e.values]
            return z3.And(vs) if isinstance(e.op, ast.And) else z3.Or(vs)
        if isinstance(e, ast.BinOp):
            return self.binop(e.op, self.expr(e.left, s), self.expr(e.right, s))
        if isinstance(e, ast.Compare):
            left = self.expr(e.left, s)
            parts = []
            for op, right_e in zip(e.ops, e.comparators):
                right = self.expr(right_e, s)
                parts.append(self.compare(op, left, right, s))
                left = right
            return z3.And(parts) if len(parts) > 1 else parts[0]
        if isinstance(e, ast.Call):
            return self.call(e, s)
        if isinstance(e, (ast.List, ast.Tuple)):
            return [self.expr(x, s) for x in e.elts]
        if isinstance(e, ast.JoinedStr) or isinstance(e, ast.Dict) or isinstance(e, ast.Lambda) or isinstance(e, ast.ListComp):
            return Opaque(type(e).__name__)
        if isinstance(e, ast.IfExp):
            return Opaque("ifexp")
        if isinstance(e, ast.Slice):
            return Opaque("slice")
        if isinstance(e, ast.Starred):
            return Opaque("starred")
        if isinstance(e, ast.Yield):
            v = self.expr(e.value, s) if e.value is not None else None
            s.events.append(Event("yield", [v], s.pc, kind="yield"))
            return None
        raise Unsupported(f"expression {type(e).__name__} at line {getattr(e, 'lineno', '?')}")

    def binop(self, op, a, b):
        if z3.is_expr(a) and z3.is_expr(b) and not z3.is_bool(a) and not z3.is_bool(b):
            if isinstance(op, ast.Add):
                return a + b
            if isinstance(op, ast.Sub):
                return a - b
            if isinstance(op, ast.Mult):
                return a * b
        return Opaque("binop")

    def compare(self, op, a, b, s):
        if isinstance(op, (ast.In, ast.NotIn)):
            if isinstance(b, SymDict) and z3.is_expr(a):
                c = b.dom[a]
            elif isinstance(b, dict):
                c = z3.BoolVal(self.keyof(a) in b)
            else:
                c = self.boolean("in")
            return c if isinstance(op, ast.In) else z3.Not(c)
        if isinstance(op, (ast.Is, ast.IsNot)):
            if b is None:
                c = z3.BoolVal(a is None) if (a is None or isinstance(a, Obj)) else self.is_none(a, s)
            else:
                c = self.boolean("is")
            return c if isinstance(op, ast.Is) else z3.Not(c)
        if z3.is_expr(a) and z3.is_expr(b) and not z3.is_bool(a) and not z3.is_bool(b):
            return {ast.Lt: a < b, ast.LtE: a <= b, ast.Gt: a > b, ast.GtE: a >= b, ast.Eq: a == b, ast.NotEq: a != b}[type(op)]
        if isinstance(op, (ast.Eq, ast.NotEq)) and z3.is_expr(a) and isinstance(b, (int, float)) and not isinstance(b, bool):
            return (a == b) if isinstance(op, ast.Eq) else (a != b)
        c = self.boolean("cmp")
        return c

    def is_none(self, a, s):
        none_flags = s.locals.setdefault("__none__", {})
        key = id(a)
        if key not in none_flags:
            none_flags[key] = self.boolean("is_none")
        return none_flags[key]

    def describe(self, f):
        if isinstance(f, ast.Name):
            return f.id
        if isinstance(f, ast.Attribute):
            return self.describe(f.value) + "." + f.attr
        if isinstance(f, ast.Subscript):
            k = f.slice.value if isinstance(f.slice, ast.Constant) else "?"
            return self.describe(f.value) + f"[{k!r}]"
        if isinstance(f, ast.Call):
            return self.describe(f.func) + "()"
        return type(f).__name__

    def call(self, e, s):
        desc = self.describe(e.func)
        if desc == "isinstance" and len(e.args) == 2:
            h = getattr(self, "isinstance_hook", None)
            a, b = self.expr(e.args[0], s), self.expr(e.args[1], s)
            if h:
                return h(self, s, a, b)
            return self.boolean("isinstance")
        args = [self.expr(a, s) for a in e.args]
        if isinstance(e.func, ast.Attribute) and e.func.attr == "get" and len(args) == 2 and args[1] == []:
            base = self.expr(e.func.value, s)
            if isinstance(base, SymDict) and z3.is_expr(args[0]):
                # dict.get(key, []): the registered list when the key is present, else a fresh empty list
                L = SymList.__new__(SymList)
                L.name = f"{base.name}.get"
                L.arr = base.lists[args[0]]
                L.n = z3.If(base.dom[args[0]], base.lens[args[0]], z3.IntVal(0))
                return L
        kind = self.event_calls(desc) if callable(self.event_calls) else None
        if kind:
            s.events.append(Event(desc, args, s.pc, kind=kind))
            h = getattr(self, "event_result", None)
            return h(self, s, desc, args) if h else Opaque(desc)
        h = getattr(self, "call_hook", None)
        if h:
            r = h(self, s, desc, e, args)
            if r is not NotImplemented:
                return r
        return Opaque(desc + "()")


def prove(assumptions, goal, timeout_s=20):
    sol = z3.Solver()
    sol.set("timeout", int(timeout_s * 1000))
    for a in assumptions:
        sol.add(a)
    sol.add(z3.Not(goal))
    r = sol.check()
    if r == z3.unsat:
        return "proved", None
    if r == z3.sat:
        return "refuted", sol.model()
    return "unknown", None
