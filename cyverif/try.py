"""dev helper: python -m cyverif.try contracts.c01 [filter] [tier]"""
import importlib, sys, time
mod = importlib.import_module(sys.argv[1])
flt = sys.argv[2] if len(sys.argv) > 2 else ""
tier = sys.argv[3] if len(sys.argv) > 3 else "quick"
for t in mod.traces(tier):
    if flt not in t.id:
        continue
    t0 = time.time()
    rs = t.run()
    print(f"== {t.id}  ({time.time()-t0:.2f}s, {getattr(t,'n_instr','?')} instr)")
    for r in rs:
        print(f"   [{r.status:9s}] {r.ob}  path={r.path!r} {r.seconds:.2f}s  {r.detail[:300]}")
        if r.witness: print("       witness:", {k:v for k,v in r.witness.items() if k!='inputs'})
