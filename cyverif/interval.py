"""Rigorous interval evaluation of an IR graph over a box (floats with outward rounding via math.nextafter).

Used for bounds (never for identities): |dOut/dc_k| over the Taylor cell, magnitudes for rounding-error analysis.
if_else_zero with an undetermined condition takes the hull of {0, value}; comparisons return {0}, {1} or [0, 1].
"""
from __future__ import annotations

import math

INF = math.inf


def dn(x):
    return math.nextafter(x, -INF) if math.isfinite(x) else x


def up(x):
    return math.nextafter(x, INF) if math.isfinite(x) else x


class IV:
    __slots__ = ("lo", "hi")

    def __init__(self, lo, hi=None):
        self.lo = float(lo)
        self.hi = float(lo if hi is None else hi)
        if self.lo > self.hi:
            raise ValueError((lo, hi))

    def __repr__(self):
        return f"[{self.lo:.6g}, {self.hi:.6g}]"

    @staticmethod
    def of(x):
        if isinstance(x, IV):
            return x
        x = float(x)
        return IV(x, x)

    def mag(self):
        return max(abs(self.lo), abs(self.hi))

    def mig(self):
        if self.lo <= 0 <= self.hi:
            return 0.0
        return min(abs(self.lo), abs(self.hi))

    def __neg__(self):
        return IV(-self.hi, -self.lo)

    def __add__(self, o):
        o = IV.of(o)
        return IV(dn(self.lo + o.lo), up(self.hi + o.hi))

    __radd__ = __add__

    def __sub__(self, o):
        o = IV.of(o)
        return IV(dn(self.lo - o.hi), up(self.hi - o.lo))

    def __rsub__(self, o):
        return IV.of(o) - self

    def __mul__(self, o):
        o = IV.of(o)
        ps = [self.lo * o.lo, self.lo * o.hi, self.hi * o.lo, self.hi * o.hi]
        ps = [0.0 if math.isnan(p) else p for p in ps]
        return IV(dn(min(ps)), up(max(ps)))

    __rmul__ = __mul__

    def inv(self):
        if self.lo <= 0 <= self.hi:
            return IV(-INF, INF)
        return IV(dn(1.0 / self.hi), up(1.0 / self.lo))

    def __truediv__(self, o):
        return self * IV.of(o).inv()

    def __rtruediv__(self, o):
        return IV.of(o) * self.inv()

    def sq(self):
        a, b = abs(self.lo), abs(self.hi)
        hi = up(max(a, b) ** 2)
        lo = 0.0 if self.lo <= 0 <= self.hi else dn(min(a, b) ** 2)
        return IV(lo, hi)

    def sqrt(self):
        if self.hi < 0:
            return IV(math.nan, math.nan) if False else IV(0.0, 0.0)
        return IV(dn(math.sqrt(max(self.lo, 0.0))), up(math.sqrt(self.hi)))

    def abs(self):
        return IV(self.mig(), self.mag())

    def hull(self, o):
        o = IV.of(o)
        return IV(min(self.lo, o.lo), max(self.hi, o.hi))

    def finite(self):
        return math.isfinite(self.lo) and math.isfinite(self.hi)


def _pad(x, rel=4e-16):
    return IV(dn(x - abs(x) * rel), up(x + abs(x) * rel))


def iv_sin(a: IV):
    if a.hi - a.lo >= 2 * math.pi:
        return IV(-1, 1)
    cands = [math.sin(a.lo), math.sin(a.hi)]
    lo, hi = min(cands), max(cands)
    k = math.ceil((a.lo - math.pi / 2) / (2 * math.pi))
    if a.lo <= math.pi / 2 + 2 * math.pi * k <= a.hi:
        hi = 1.0
    k = math.ceil((a.lo + math.pi / 2) / (2 * math.pi))
    if a.lo <= -math.pi / 2 + 2 * math.pi * k <= a.hi:
        lo = -1.0
    return IV(max(-1.0, dn(dn(lo))), min(1.0, up(up(hi))))


def iv_cos(a: IV):
    return iv_sin(a + IV(dn(math.pi / 2), up(math.pi / 2)))


def iv_atan(a: IV):
    return IV(dn(dn(math.atan(a.lo))), up(up(math.atan(a.hi))))


def eval_iv(g, roots, env):
    """env: INPUT payload -> IV.  returns dict node -> IV (conditions as IV in {0,1,[0,1]})"""
    memo = {}
    import sys
    sys.setrecursionlimit(50000)

    def ev(n):
        if n is None:
            return IV(0.0)
        v = memo.get(n)
        if v is not None:
            return v
        op, args, payload = g.nodes[n]
        if op == "INPUT":
            v = IV.of(env[payload])
        elif op == "CONST":
            if isinstance(payload, str):
                v = IV(-INF, INF)
            else:
                f = float(payload)
                v = IV(f, f)  # constants are doubles: exact
        elif op == "ADD":
            v = ev(args[0]) + ev(args[1])
        elif op == "SUB":
            v = ev(args[0]) - ev(args[1])
        elif op == "MUL":
            v = ev(args[0]).sq() if args[0] == args[1] else ev(args[0]) * ev(args[1])
        elif op == "DIV":
            v = ev(args[0]) / ev(args[1])
        elif op == "NEG":
            v = -ev(args[0])
        elif op == "SQ":
            v = ev(args[0]).sq()
        elif op == "TWICE":
            v = ev(args[0]) * 2.0
        elif op == "INV":
            v = ev(args[0]).inv()
        elif op == "SQRT":
            v = ev(args[0]).sqrt()
        elif op == "FABS":
            v = ev(args[0]).abs()
        elif op == "SIN":
            v = iv_sin(ev(args[0]))
        elif op == "COS":
            v = iv_cos(ev(args[0]))
        elif op == "TAN":
            a = ev(args[0])
            v = iv_sin(a) / iv_cos(a)
        elif op == "ATAN":
            v = iv_atan(ev(args[0]))
        elif op in ("POW", "CONSTPOW"):
            a, e = ev(args[0]), ev(args[1])
            if e.lo == e.hi and float(e.lo).is_integer():
                k = int(e.lo)
                r = IV(1.0)
                base = a
                for _ in range(abs(k)):
                    r = r * base
                if k and k % 2 == 0:
                    r = IV(max(r.lo, 0.0), r.hi) if abs(k) == 2 else r
                v = r if k >= 0 else r.inv()
            elif e.lo == e.hi and a.lo >= 0:
                v = IV(dn(dn(math.pow(a.lo, e.lo))), up(up(math.pow(a.hi, e.lo)))) if e.lo > 0 else IV(dn(dn(math.pow(a.hi, e.lo))), up(up(math.pow(a.lo, e.lo)))) if a.lo > 0 else IV(0.0, INF)
            else:
                v = IV(-INF, INF)
        elif op in ("LT", "LE"):
            a, b = ev(args[0]), ev(args[1])
            if (a.hi < b.lo) or (op == "LE" and a.hi <= b.lo):
                v = IV(1.0)
            elif (a.lo >= b.hi and op == "LT") or (a.lo > b.hi):
                v = IV(0.0)
            else:
                v = IV(0.0, 1.0)
        elif op in ("EQ", "NE"):
            a, b = ev(args[0]), ev(args[1])
            if a.hi < b.lo or b.hi < a.lo:
                v = IV(0.0) if op == "EQ" else IV(1.0)
            elif a.lo == a.hi == b.lo == b.hi:
                v = IV(1.0) if op == "EQ" else IV(0.0)
            else:
                v = IV(0.0, 1.0)
        elif op == "NOT":
            a = ev(args[0])
            v = IV(1.0 - a.hi, 1.0 - a.lo)
        elif op == "AND":
            a, b = ev(args[0]), ev(args[1])
            v = IV(min(a.lo, b.lo), min(a.hi, b.hi))
        elif op == "OR":
            a, b = ev(args[0]), ev(args[1])
            v = IV(max(a.lo, b.lo), max(a.hi, b.hi))
        elif op == "IF_ELSE_ZERO":
            c = ev(args[0])
            if c.hi == 0.0:
                v = IV(0.0)
            elif c.lo == 1.0:
                v = ev(args[1])
            else:
                v = ev(args[1]).hull(IV(0.0))
        elif op == "FMIN":
            a, b = ev(args[0]), ev(args[1])
            v = IV(min(a.lo, b.lo), min(a.hi, b.hi))
        elif op == "FMAX":
            a, b = ev(args[0]), ev(args[1])
            v = IV(max(a.lo, b.lo), max(a.hi, b.hi))
        elif op == "SIGN":
            a = ev(args[0])
            v = IV(-1.0 if a.lo < 0 else (0.0 if a.lo == 0 else 1.0), 1.0 if a.hi > 0 else (0.0 if a.hi == 0 else -1.0))
        else:
            v = IV(-INF, INF)
        memo[n] = v
        return v

    for r in roots:
        if r is not None:
            ev(r)
    return memo
