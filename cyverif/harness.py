"""Trace + obligations + runner for the ALG back end.

A Trace = sorted inputs (requires) + a `build` callable that calls the REAL cyecca functions on SX
symbols and returns named SX outputs (real results and spec-side terms) + a list of obligations
relating outputs.  The runner extracts the IR, enumerates control paths, lowers both sides of each
obligation into the quotient ring and compares normal forms.
"""
from __future__ import annotations

import hashlib
import inspect
import math
import random
import time
import traceback
from dataclasses import dataclass, field
from fractions import Fraction

import casadi as ca

from . import ir
from .lower import Lowerer, explore, SERIES_EPS
from .ring import EngineError, Frac, Ring

PROVED, REFUTED, UNDECIDED, ERROR, ASSUMED = "proved", "refuted", "undecided", "error", "assumed"


@dataclass
class Ob:
    """obligation: entries of output `lhs` equal entries of output `rhs` (or zero when rhs is None)"""

    id: str
    lhs: str
    rhs: str | None = None
    kind: str = "eq"  # eq | structural_zero | shape | le lt ge gt ne | taylor | script
    falsify: object = None  # kind == "script": an Ob of kind le/ge/... over the same outputs, used to search a concrete counterexample when the script fails
    check: object = None  # kind == "script": callable(trace, low, onodes) -> (status, detail, count) (machine-checked proof script)
    entries: list | None = None  # restrict to these (i, j)
    tol: float = 1e-6  # numeric replay tolerance
    note: str = ""
    var: str | None = None  # kind == "taylor": ring variable name; lhs - rhs = O(var^(order+1))
    order: int = 0


@dataclass
class Result:
    trace: str
    ob: str
    status: str
    backend: str = "ALG"
    path: str = ""
    seconds: float = 0.0
    detail: str = ""
    witness: dict | None = None
    entries: int = 0
    known: str | None = None

    def to_json(self):
        return self.__dict__.copy()


def series_cell(closed=True):
    """cell policy: decide every test `fabs(x) < 1e-3` (the Taylor switch of
    cyecca.symbolic.taylor_series_near_zero) as False (closed-form cell) or True (Taylor cell)"""

    def decide(low, n):
        g = low.g
        op, args, _ = g.nodes[n]
        if op == "LT" and g.op(args[0]) == "FABS" and g.op(args[1]) == "CONST" and g.payload(args[1]) == SERIES_EPS:
            return not closed
        return None

    return decide


def cells(series="closed", gimbal=None):
    """cell policy combining the Taylor switch (series: 'closed' | 'taylor' | None = explore both) and the
    Euler gimbal-band tests `fabs(asin(.) -+ pi/2) < 1e-3` (gimbal: 'outside' | None = explore)."""

    def is_gimbal(g, n):
        a0 = g.args(n)[0]
        if g.op(a0) != "FABS":
            return False
        x = g.args(a0)[0]
        if g.op(x) in ("ADD", "SUB"):
            a, b = g.args(x)
            return "ASIN" in (g.op(a), g.op(b))
        return False

    def decide(low, n):
        g = low.g
        op, args, _ = g.nodes[n]
        # CasADi simplifies fabs(x*x) to x*x, so the Taylor switch appears with or without the FABS node; without it the
        # left-hand side must be syntactically non-negative, otherwise `x < 1e-3` is NOT the switch |x| < 1e-3 and
        # deciding it here would be unsound (the path is then explored instead)
        if op == "LT" and g.op(args[1]) == "CONST" and g.payload(args[1]) == SERIES_EPS and (g.op(args[0]) == "FABS" or nonneg_node(g, args[0])):
            if is_gimbal(g, n):
                if gimbal in ("north", "south"):
                    # band cells: the first test is |asin(.) - pi/2| < 1e-3 (SUB), the second |asin(.) + pi/2| < 1e-3 (ADD)
                    first = g.op(g.args(g.args(n)[0])[0]) == "SUB"
                    return (gimbal == "north") if first else (gimbal == "south")
                return False if gimbal == "outside" else None
            if series == "closed":
                return False
            if series == "taylor":
                return True
        return None

    return decide


def nonneg_node(g, n, depth=0):
    """syntactic non-negativity of an IR node (squares, sums / products / positive multiples of non-negative nodes)"""
    if depth > 12:
        return False
    op, args, payload = g.nodes[n]
    if op in ("SQ", "FABS"):
        return True
    if op == "CONST":
        return not isinstance(payload, str) and payload >= 0
    if op == "ADD":
        return all(nonneg_node(g, a, depth + 1) for a in args)
    if op == "MUL":
        return args[0] == args[1] or all(nonneg_node(g, a, depth + 1) for a in args)
    if op == "DIV":
        return nonneg_node(g, args[0], depth + 1) and g.op(args[1]) == "CONST" and not isinstance(g.payload(args[1]), str) and g.payload(args[1]) > 0
    if op == "TWICE":
        return nonneg_node(g, args[0], depth + 1)
    if op == "SQRT":
        return True
    return False


def source_hash(fn):
    try:
        src = inspect.getsource(fn)
        f = inspect.getsourcefile(fn)
    except (OSError, TypeError):
        return {"name": getattr(fn, "__qualname__", str(fn)), "file": None, "sha256": None}
    return {
        "name": f"{fn.__module__}.{fn.__qualname__}",
        "file": f,
        "sha256": hashlib.sha256(src.encode()).hexdigest()[:16],
    }


class Trace:
    def __init__(self, id, inputs, build, obligations, functions=(), decide=None, lemmas=(), max_paths=64,
                 budget_s=120, post_bind=None, note="", sample_filter=None, expect_paths=None, requires_nonzero=None,
                 requires_smt=None, definedness=True, smt_timeout=10, numeric=None, witness_candidates=None, smt_lemmas=None, cut=None):
        self.id = id
        self.inputs = inputs
        self.build = build
        self.obligations = obligations
        self.functions = list(functions)
        self.decide = decide
        self.lemmas = list(lemmas)
        self.max_paths = max_paths
        self.budget_s = budget_s
        self.post_bind = post_bind
        self.note = note
        self.sample_filter = sample_filter
        self.requires_nonzero = requires_nonzero  # callable(low, sorts) -> list of Frac/Poly declared nonzero by `requires`
        self.cut = cut  # callable(g, onodes) -> {node: name}: intermediate nodes lowered as FREE variables (the obligations are then proved for arbitrary values of those intermediates: a stronger statement; used when the outputs depend on the inputs only through them)
        self.smt_lemmas = smt_lemmas  # callable(rs, sorts, low) -> [(name, z3 formula)]: cut formulas, each PROVED by the solver before it is used
        self.requires_smt = requires_smt  # callable(rs: RingSMT, sorts) -> list of z3 constraints (extra requires for SMT queries)
        self.definedness = definedness
        self.smt_timeout = smt_timeout
        # companion trace WITHOUT stubs (same obligation ids, stated on the real function's outputs): used for
        # counterexample search and replay when this trace replaces callees by their contracts
        self.numeric = numeric
        # concrete inputs tried first in the counterexample search (degenerate corners random sampling cannot hit)
        self.witness_candidates = witness_candidates or []

    # ------------------------------------------------------------------
    def sx_inputs(self):
        return {s.name: s.sx() for s in self.inputs}

    def call_build(self):
        ins = self.sx_inputs()
        return ins, self.build(**ins)

    def sample(self, rng):
        for _ in range(200):
            vals = {}
            for s in self.inputs:
                if hasattr(s, "sample_joint"):
                    vals[s.name] = s.sample_joint(rng, vals)
                else:
                    vals[s.name] = s.sample(rng)
            if self.sample_filter is None or self.sample_filter(vals):
                return vals
        raise EngineError("sampler could not satisfy the requires filter")

    # ------------------------------------------------------------------
    def run(self, seed=0) -> list[Result]:
        t0 = time.time()
        rng = random.Random(seed)
        results = []
        try:
            ins, outs = self.call_build()
        except Exception as e:  # the real function raised on valid symbolic input
            tb = traceback.format_exc(limit=6)
            w = None
            try:
                w = {"inputs": self.sample(rng)}
            except Exception:
                pass
            return [
                Result(self.id, "normal-return", REFUTED, "TRACE", "", time.time() - t0,
                       f"real function raised {type(e).__name__}: {e}\n{tb}", w)
            ]
        try:
            g, onodes, n_instr = ir.extract(ins, outs)
            fn = ca.Function("num", list(ins.values()), [ca.SX(outs[k]) for k in outs], list(ins), ["o_" + k for k in outs])
            self._crosscheck(g, onodes, fn, rng)
        except Exception as e:
            return [Result(self.id, "extraction", ERROR, "TRACE", "", time.time() - t0, f"{type(e).__name__}: {e}")]
        self.n_instr = n_instr
        # shape / structural obligations first (path independent)
        pending = []
        for ob in self.obligations:
            if ob.kind == "shape":
                shape = tuple(ca.SX(outs[ob.lhs]).shape)
                ok = shape == tuple(ob.rhs)
                results.append(Result(self.id, ob.id, PROVED if ok else REFUTED, "STRUCT", "", 0.0,
                                      f"shape {shape} expected {tuple(ob.rhs)}",
                                      None if ok else {"inputs": self.sample(rng)}, 1))
            elif ob.kind == "structural_zero":
                bad = [(i, j) for (i, j) in ob.entries if onodes[ob.lhs][i][j] is not None]
                results.append(Result(self.id, ob.id, PROVED if not bad else REFUTED, "STRUCT", "", 0.0,
                                      f"structurally nonzero entries {bad}" if bad else "structural zeros confirmed",
                                      None if not bad else {"inputs": self.sample(rng)}, len(ob.entries)))
            else:
                pending.append(ob)
        if not pending:
            return results
        # path enumeration
        deadline = time.time() + self.budget_s
        per_ob = {ob.id: [] for ob in pending}

        def run_path(decisions):
            R = Ring()
            R.deadline = deadline
            low = Lowerer(g, R, {}, decisions, self.decide)
            low.onodes = onodes
            low.smt_ctx = lambda: self._smt_context(low)
            for s in self.inputs:
                low.env.update(s.bind(low))
            if self.post_bind:
                self.post_bind(low, {s.name: s for s in self.inputs})
            if self.cut:
                for node, nm_ in self.cut(g, onodes).items():
                    low.memo[node] = Frac.of(R, R.gen(nm_))
            out = {}
            for ob in pending:
                t1 = time.time()
                try:
                    st, detail, cnt = self._check_ob(low, onodes, outs, ob)
                except TimeoutError:
                    st, detail, cnt = UNDECIDED, "time budget exhausted", 0
                except EngineError as e:
                    st, detail, cnt = UNDECIDED, f"engine: {e}", 0
                if st in (REFUTED, UNDECIDED) and "budget" not in detail:
                    # a normal form that differs on an infeasible path proves nothing: ask SMT whether the path exists
                    try:
                        if self._path_dead(low):
                            st, detail = PROVED, "path infeasible under requires (SMT: path condition unsat), obligation vacuous there; normal forms: " + detail[:160]
                    except Exception:
                        pass
                out[ob.id] = (st, detail, cnt, time.time() - t1)
            if self.definedness:
                t1 = time.time()
                try:
                    out["__definedness__"] = self._definedness(low) + (time.time() - t1,)
                except Exception as e:  # never let the side analysis break a verdict
                    out["__definedness__"] = (ASSUMED, f"definedness analysis failed: {type(e).__name__}: {e}", 0, time.time() - t1)
            return out, low

        try:
            for used, trace, out in explore(run_path, self.max_paths):
                pstr = "".join("T" if d else "F" for d in used)
                for ob in pending:
                    st, detail, cnt, secs = out[ob.id]
                    per_ob[ob.id].append((pstr, trace, st, detail, cnt, secs))
                if "__definedness__" in out:
                    st, detail, cnt, secs = out["__definedness__"]
                    if cnt or st != PROVED:
                        results.append(Result(self.id, "definedness: every divisor / radicand met on this path is in-domain", st,
                                              "SMT+SYNTACTIC", pstr, secs, detail, None, cnt))
        except EngineError as e:
            # the engine gave up (e.g. too many control paths): nothing is proved; a sampled input on which the real
            # function violates an obligation still makes it a violation with a concrete witness
            found = False
            for ob in pending:
                if ob.kind not in ("eq", "le", "lt", "ge", "gt"):
                    continue
                try:
                    w = self._find_witness(None, onodes, fn, outs, ob, [], rng, n=600)
                except Exception:
                    w = None
                if w is not None:
                    found = True
                    results.append(Result(self.id, ob.id, REFUTED, "EVAL", "", time.time() - t0,
                                          f"engine gave up ({e}); a sampled input satisfying the sorts violates the obligation on the real function", w, 0))
            if not found:
                results.append(Result(self.id, "paths", UNDECIDED, "ALG", "", time.time() - t0, f"engine: {e}"))
            return results
        for ob in pending:
            rows = per_ob[ob.id]
            for pstr, trace, st, detail, cnt, secs in rows:
                r = Result(self.id, ob.id, st, "ALG", pstr, secs, detail, None, cnt)
                if st == UNDECIDED and ob.kind == "script" and ob.falsify is not None:
                    w = self._find_witness(g, onodes, fn, outs, ob.falsify, trace, rng)
                    if w is not None:
                        r.status, r.witness = REFUTED, w
                        r.detail = "proof script failed and a concrete input violates the inequality: " + detail
                if st == REFUTED:
                    r.witness = self._find_witness(g, onodes, fn, outs, ob, trace, rng)
                    if r.witness is None:
                        # is the path feasible at all?  (sampled; dead paths are discarded)
                        if self.numeric is None and not self._path_reachable(g, trace, rng):
                            r.status = UNDECIDED
                            r.detail = "normal forms differ on a path that no sample of 4000 reaches (dead path? declare it in the cell policy or prove infeasibility): " + detail
                results.append(r)
        return results

    # ------------------------------------------------------------------
    def _entries(self, onodes, ob):
        L = onodes[ob.lhs]
        if ob.entries is not None:
            return ob.entries
        return [(i, j) for i in range(len(L)) for j in range(len(L[0]))]

    def _sorts(self):
        return {s.name: s for s in self.inputs}

    def _smt_context(self, low):
        from .smt import RingSMT
        rs = RingSMT(low)
        assum = rs.path_constraints()
        if self.requires_smt:
            assum += list(self.requires_smt(rs, self._sorts()))
        assum = assum + rs.atom_constraints()
        # obligations are stated where the function is defined: every divisor met is nonzero
        # (definedness itself is the separate obligation/assumption reported per path)
        seen = set()
        for f in low.R.assumed_nonzero:
            if f.key() not in seen:
                seen.add(f.key())
                assum.append(rs.poly(f) != 0)
        return rs, assum

    def _path_dead(self, low):
        if not any(how in ("path",) for _, _, how in low.trace):
            return False
        cached = getattr(low, "_dead", None)
        if cached is not None:
            return cached
        from . import smt
        import z3
        rs, assum = self._smt_context(low)
        st, _, _, _ = smt.check(assum, z3.BoolVal(False), self.smt_timeout, want_model=False)
        low._dead = st == "proved"
        return low._dead

    def _definedness(self, low):
        from . import smt
        R = low.R
        declared = set()
        if self.requires_nonzero:
            for x in self.requires_nonzero(low, self._sorts()):
                p = x.num if isinstance(x, Frac) else x
                c, facs = R.factor(p)
                for f, e in facs:
                    declared.add(f.key())
        seen = {}
        for f in R.assumed_nonzero:
            seen.setdefault(f.key(), f)
        n_syn = n_decl = n_smt = 0
        open_ = []
        rs = assum = None
        pos = getattr(R, "positive", set())
        for k, f in seen.items():
            if R.syntactically_nonneg(f, strict=True):
                n_syn += 1
                continue
            if len(f.t) == 1 and all(i in pos for i, e in R._unpack(next(iter(f.t)))):
                n_syn += 1
                continue
            if k in declared:
                n_decl += 1
                continue
            if rs is None:
                from .smt import RingSMT
                rs = RingSMT(low)
                assum = rs.path_constraints()
                if self.requires_smt:
                    assum += list(self.requires_smt(rs, self._sorts()))
                assum = assum + rs.atom_constraints()
            st, model, secs, solver = smt.check(assum, rs.poly(f) != 0, self.smt_timeout)
            if st == "proved":
                n_smt += 1
            else:
                open_.append(f"{R.show(f, 6)} [{st}]")
        total = len(seen)
        detail = f"{total} distinct divisor factors: {n_syn} syntactically positive, {n_decl} excluded by requires, {n_smt} proved nonzero by SMT under the path condition"
        if open_:
            return ASSUMED, detail + f"; {len(open_)} NOT discharged (assumed nonzero): " + "; ".join(open_[:6]), total
        return PROVED, detail, total

    def _check_ineq(self, low, onodes, ob):
        from . import smt
        import z3
        L = onodes[ob.lhs]
        Rm = onodes[ob.rhs] if ob.rhs is not None else None
        goals = []
        cnt = 0
        vals = []
        for (i, j) in self._entries(onodes, ob):
            a = low.value(L[i][j])
            b = low.value(Rm[i][j]) if Rm is not None else Frac.of(low.R, 0)
            vals.append((a, b))
            cnt += 1
        rs, assum = self._smt_context(low)
        for a, b in vals:
            fa, fb = rs.frac(a), rs.frac(b)
            goals.append({"le": fa <= fb, "lt": fa < fb, "ge": fa >= fb, "gt": fa > fb, "ne": fa != fb}[ob.kind])
        assum = assum + rs.atom_constraints()
        note = ""
        if self.smt_lemmas:
            # cut rule: an auxiliary formula is added to the context only after the solver has proved it from the context
            cache = getattr(low, "_lemma_cache", None)
            if cache is None:
                cache = low._lemma_cache = []
                for name, fml in self.smt_lemmas(rs, self._sorts(), low):
                    st_l, _, _, _ = smt.check(assum + [f for _, f in cache], fml, max(self.smt_timeout, 20), want_model=False)
                    if st_l == "proved":
                        cache.append((name, fml))
            assum = assum + [f for _, f in cache]
            note = f"; {len(cache)} auxiliary lemma(s) proved first and used as cuts: " + ", ".join(n for n, _ in cache)
        st, model, secs, solver = smt.check(assum, z3.And(goals) if len(goals) > 1 else goals[0], max(self.smt_timeout, 20))
        if st == "proved":
            return PROVED, f"{cnt} entries: {ob.kind} proved by {solver} under requires + path condition ({secs:.2f}s){note}", cnt
        if st == "refuted":
            return REFUTED, f"{solver} model violates {ob.kind}: " + str(model)[:300], cnt
        return UNDECIDED, f"SMT {solver}: unknown after {secs:.1f}s", cnt

    def _check_taylor(self, low, onodes, ob):
        R = low.R
        L, Rm = onodes[ob.lhs], onodes[ob.rhs]
        vi = R.index.get(ob.var)
        cnt = 0
        from .ring import BITS, MASK
        for (i, j) in self._entries(onodes, ob):
            d = low.value(L[i][j]) - low.value(Rm[i][j])
            cnt += 1
            if vi is None:
                if not d.num.is_zero():
                    return REFUTED, f"difference nonzero and variable {ob.var} absent", cnt
                continue
            for f in d.den:
                if vi in f.vars():
                    return UNDECIDED, f"denominator depends on {ob.var}", cnt
            low_terms = {m: c for m, c in d.num.t.items() if ((m >> (BITS * vi)) & MASK) <= ob.order}
            if low_terms:
                k = min(((m >> (BITS * vi)) & MASK) for m in low_terms)
                from .ring import Poly
                return REFUTED, f"entry ({i},{j}): coefficient of {ob.var}^{k} in lhs-rhs is nonzero: {R.show(Poly(R, {m: c for m, c in low_terms.items() if ((m >> (BITS * vi)) & MASK) == k}), 5)}", cnt
        return PROVED, f"{cnt} entries: lhs - rhs = O({ob.var}^{ob.order + 1}) (all lower Taylor coefficients vanish identically)", cnt

    def _check_ob(self, low, onodes, outs, ob):
        if ob.kind in ("le", "lt", "ge", "gt", "ne"):
            return self._check_ineq(low, onodes, ob)
        if ob.kind == "taylor":
            return self._check_taylor(low, onodes, ob)
        if ob.kind == "script":
            from .absproof import ProofFailed
            try:
                return ob.check(self, low, onodes)
            except ProofFailed as e:
                return UNDECIDED, f"proof script: {e}", 0
        L = onodes[ob.lhs]
        Rm = onodes[ob.rhs] if ob.rhs is not None else None
        if Rm is not None and (len(L) != len(Rm) or len(L[0]) != len(Rm[0])):
            return REFUTED, f"shape mismatch {len(L)}x{len(L[0])} vs {len(Rm)}x{len(Rm[0])}", 0
        bad = []
        cnt = 0
        for (i, j) in self._entries(onodes, ob):
            a = low.value(L[i][j])
            b = low.value(Rm[i][j]) if Rm is not None else Frac.of(low.R, 0)
            cnt += 1
            d = a - b
            if not d.num.is_zero() and not low.R.reduce(d.num).is_zero():  # relations learned late on the path (resolved sign atoms) apply too
                bad.append(((i, j), d))
        if bad:
            (i, j), d = bad[0]
            shown = low.R.show(d.num, 6)
            signs = "; ".join(f"{low.R.names[sv]} = sign({low.R.show(f, 4)})" for sv, f in getattr(low.R, "sign_of", {}).items() if low.R.names[sv] in shown)
            return REFUTED, f"{len(bad)}/{cnt} entries differ; first ({i},{j}): nonzero normal form of lhs-rhs numerator = {shown}" + (f"  [{signs}]" if signs else ""), cnt
        return PROVED, f"{cnt} entries: normal forms equal", cnt

    # ------------------------------------------------------------------
    def _crosscheck(self, g, onodes, fn, rng):
        """A-GRAPH sanity: IR float evaluation == casadi Function evaluation at random points"""
        for _ in range(2):
            vals = self.sample(rng)
            env = {}
            for s in self.inputs:
                v = vals[s.name]
                for i in range(s.shape[0]):
                    for j in range(s.shape[1]):
                        env[(s.name, i, j)] = v[i][j]
            res = fn(*[s.dm(vals[s.name]) for s in self.inputs])
            if not isinstance(res, (list, tuple)):
                res = [res]
            names = list(onodes)
            roots = [n for k in names for row in onodes[k] for n in row if n is not None]
            fv = ir.eval_float(g, roots, env)
            for k, dm in zip(names, res):
                dm = ca.DM(dm).full()
                for i, row in enumerate(onodes[k]):
                    for j, n in enumerate(row):
                        a = float(dm[i][j])
                        b = fv[n] if n is not None else 0.0
                        if math.isnan(a) and math.isnan(b):
                            continue
                        if not (abs(a - b) <= 1e-9 * (1 + abs(a))):
                            raise EngineError(f"IR/Function mismatch on {k}[{i},{j}]: {a} vs {b}")

    def numeric_outputs(self, fn, vals):
        res = fn(*[s.dm(vals[s.name]) for s in self.inputs])
        if not isinstance(res, (list, tuple)):
            res = [res]
        return {k[2:]: ca.DM(v).full() for k, v in zip(fn.name_out(), res)}

    def _path_ok(self, g, trace, env):
        conds = [n for n, _, how in trace if how in ("path", "cell")]
        if not conds:
            return True
        # FMIN/FMAX decisions are keyed by the value node: decision = (a < b)
        roots = []
        for n in conds:
            if g.op(n) in ("FMIN", "FMAX"):
                roots.extend(g.args(n))
            else:
                roots.append(n)
        fv = ir.eval_float(g, roots, env)
        for n, dec, how in trace:
            if how not in ("path", "cell"):
                continue
            if g.op(n) in ("FMIN", "FMAX"):
                a, b = g.args(n)
                v = fv[a] < fv[b]
            else:
                v = fv[n] != 0
            if v != dec:
                return False
        return True

    def _env_of(self, vals):
        env = {}
        for s in self.inputs:
            v = vals[s.name]
            for i in range(s.shape[0]):
                for j in range(s.shape[1]):
                    env[(s.name, i, j)] = v[i][j]
        return env

    def _path_reachable(self, g, trace, rng, n=4000):
        for c in self.witness_candidates:
            if self._path_ok(g, trace, self._env_of(c)):
                return True
        for _ in range(n):
            vals = self.sample(rng)
            if self._path_ok(g, trace, self._env_of(vals)):
                return True
        return False

    def witness_for(self, ob_id, rng, n=300):
        ins, outs = self.call_build()
        fn = ca.Function("num", list(ins.values()), [ca.SX(outs[k]) for k in outs], list(ins), ["o_" + k for k in outs])
        obs = [o for o in self.obligations if o.id == ob_id] or self.obligations
        onodes = {k: [[0] * ca.SX(outs[k]).shape[1] for _ in range(ca.SX(outs[k]).shape[0])] for k in outs}
        for ob in obs:
            w = self._find_witness(None, onodes, fn, outs, ob, [], rng, n)
            if w is not None:
                w["numeric_obligation"] = ob.id
                return w
        return None

    def _find_witness(self, g, onodes, fn, outs, ob, trace, rng, n=400):
        if self.numeric is not None:
            return self.numeric.witness_for(ob.id, rng)
        best = None
        cands = list(self.witness_candidates)
        for k in range(n + len(cands)):
            vals = cands[k] if k < len(cands) else self.sample(rng)
            if g is not None and not self._path_ok(g, trace, self._env_of(vals)):
                continue
            num = self.numeric_outputs(fn, vals)
            A = num[ob.lhs]
            B = num[ob.rhs] if ob.rhs is not None else None
            if B is not None and A.shape != B.shape:
                return {"inputs": vals, "entry": None, "observed": f"shape {A.shape}", "expected": f"shape {B.shape}", "abs_diff": None}
            worst = 0.0
            where = None
            for (i, j) in self._entries(onodes, ob):
                a = float(A[i][j])
                b = float(B[i][j]) if B is not None else 0.0
                d = abs(a - b) if not (math.isnan(a) or math.isnan(b)) else math.inf
                if ob.kind in ("le", "lt"):
                    d = max(0.0, a - b) if not math.isinf(d) else d
                elif ob.kind in ("ge", "gt"):
                    d = max(0.0, b - a) if not math.isinf(d) else d
                elif ob.kind == "ne":
                    d = 1.0 if a == b else 0.0
                if d > worst:
                    worst, where = d, (i, j, a, b)
            if worst > ob.tol and (best is None or worst > best[0]):
                best = (worst, where, vals)
                if worst > 1e-3:
                    break
        if best is None:
            return None
        worst, (i, j, a, b), vals = best
        return {"inputs": vals, "entry": [i, j], "observed": a, "expected": b, "abs_diff": worst}

    # ------------------------------------------------------------------
    def replay(self, witness, tol=None):
        """re-evaluate on the working tree; returns (still_failing: bool, description)"""
        if self.numeric is not None:
            return self.numeric.replay(witness, tol)
        try:
            ins, outs = self.call_build()
        except Exception as e:
            return True, f"real function raised {type(e).__name__}: {e}"
        fn = ca.Function("num", list(ins.values()), [ca.SX(outs[k]) for k in outs], list(ins), ["o_" + k for k in outs])
        num = self.numeric_outputs(fn, witness["inputs"])
        msgs = []
        failing = False
        for ob in self.obligations:
            if ob.kind not in ("eq", "le", "lt", "ge", "gt", "taylor"):
                continue
            A = num[ob.lhs]
            B = num[ob.rhs] if ob.rhs is not None else None
            if B is not None and A.shape != B.shape:
                failing = True
                msgs.append(f"{ob.id}: shape {A.shape} vs {B.shape}")
                continue
            for i in range(A.shape[0]):
                for j in range(A.shape[1]):
                    if ob.entries is not None and (i, j) not in [tuple(e) for e in ob.entries]:
                        continue
                    a = float(A[i][j])
                    b = float(B[i][j]) if B is not None else 0.0
                    dd = abs(a - b)
                    if ob.kind in ("le", "lt"):
                        dd = max(0.0, a - b)
                    elif ob.kind in ("ge", "gt"):
                        dd = max(0.0, b - a)
                    if math.isnan(a) or math.isnan(b) or dd > (tol or ob.tol):
                        failing = True
                        msgs.append(f"{ob.id}[{i},{j}]: observed {a!r} expected {b!r}")
        return failing, "; ".join(msgs[:6])
