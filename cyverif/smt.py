"""SMT back end (z3, cvc5 as second opinion) over QF_NRA.

Two entry points:
 * ring-level: polynomials / fractions of the ALG engine translated to z3 together with the
   defining constraints of every atom (root, sign, trig, unit-norm relations) and the path conditions:
   used for definedness (denominator != 0), inequality obligations and path feasibility;
 * IR-level: the extracted graph encoded node by node (piecewise-linear controllers, allocators).

Division is z3's total real division: x/0 is an unconstrained value, so anything proved holds for
every value of an undefined quotient (conservative); definedness is a separate obligation.
"""
from __future__ import annotations

import subprocess
import tempfile
import time
from fractions import Fraction

import z3

from .ring import BITS, MASK, Frac, Poly, Ring


def q(fr: Fraction):
    return z3.RealVal(f"{fr.numerator}/{fr.denominator}")


class RingSMT:
    def __init__(self, low):
        self.low = low
        self.R: Ring = low.R
        self.vars = {}
        self.cons = []
        self._built = set()

    def v(self, i):
        x = self.vars.get(i)
        if x is None:
            x = z3.Real(self.R.names[i])
            self.vars[i] = x
        return x

    def poly(self, p: Poly):
        terms = []
        for m, c in p.t.items():
            t = q(c)
            i = 0
            mm = m
            while mm:
                e = mm & MASK
                if e:
                    x = self.v(i)
                    for _ in range(e):
                        t = t * x
                mm >>= BITS
                i += 1
            terms.append(t)
        if not terms:
            return z3.RealVal(0)
        return z3.Sum(terms) if len(terms) > 1 else terms[0]

    def frac(self, f: Frac):
        n = self.poly(f.num)
        if not f.den:
            return n
        d = z3.RealVal(1)
        for fac, e in f.den.items():
            pf = self.poly(fac)
            for _ in range(e):
                d = d * pf
        return n / d

    def atom_constraints(self):
        """defining constraints of every atom currently in the ring"""
        R = self.R
        out = []
        for i, (k, rhs) in R.rel.items():
            x = self.v(i)
            lhs = x
            for _ in range(k - 1):
                lhs = lhs * x
            out.append(lhs == self.poly(rhs))
        for i in R.nonneg:
            out.append(self.v(i) >= 0)
        for i in getattr(R, "positive", set()):
            out.append(self.v(i) > 0)
        for sv, f in getattr(R, "sign_of", {}).items():
            out.append(self.v(sv) * self.poly(f) >= 0)
        for key in R.positive_polys:
            out.append(self.poly(Poly(R, dict(key))) >= 0)
        # inverse-trig angle atoms: range facts and monotonicity axioms (transcendental facts, stated not derived)
        pi = z3.Real("pi")
        used_pi = False
        for i, d in R.angle_def.items():
            a = self.v(i)
            op = d[0]
            used_pi = True
            if op == "ACOS":
                u = self.frac(d[1])
                out += [a >= 0, a <= pi, (u >= 0) == (a <= pi / 2), (u >= 1) == (a <= 0), (u <= -1) == (a >= pi)]
            elif op == "ASIN":
                u = self.frac(d[1])
                out += [a >= -pi / 2, a <= pi / 2, (u >= 0) == (a >= 0)]
            elif op == "ATAN":
                u = self.frac(d[1])
                out += [a > -pi / 2, a < pi / 2, (u >= 0) == (a >= 0), (u <= 1) == (a <= pi / 4), (u >= -1) == (a >= -pi / 4)]
            elif op == "ATAN2":
                out += [a >= -pi, a <= pi]
        if used_pi or getattr(self, "want_pi", False):
            out += [pi > z3.RealVal("3.14159265358979"), pi < z3.RealVal("3.14159265358980")]
        return out

    def path_constraints(self):
        low = self.low
        g = low.g
        out = []
        for n, dec, how in low.trace:
            if how == "const":
                continue
            op, args, _ = g.nodes[n]
            if op in ("FMIN", "FMAX"):
                a, b = low.value(args[0]), low.value(args[1])
                c = self.frac(a) < self.frac(b)
            elif op in ("LT", "LE", "EQ", "NE"):
                try:
                    a, b = low.value(args[0]), low.value(args[1])
                except Exception:
                    continue
                fa, fb = self.frac(a), self.frac(b)
                c = {"LT": fa < fb, "LE": fa <= fb, "EQ": fa == fb, "NE": fa != fb}[op]
            else:
                continue
            out.append(c if dec else z3.Not(c))
        return out


def check(assumptions, goal, timeout_s=10, want_model=True):
    """prove  assumptions => goal.   returns (status, model|None, seconds, solver)
    status in 'proved' | 'refuted' | 'unknown'"""
    t0 = time.time()
    s = z3.Solver()
    s.set("timeout", int(timeout_s * 1000))
    for a in assumptions:
        s.add(a)
    s.add(z3.Not(goal))
    r = s.check()
    if r == z3.unsat:
        return "proved", None, time.time() - t0, "z3"
    if r == z3.sat:
        return "refuted", (s.model() if want_model else None), time.time() - t0, "z3"
    # second opinion: cvc5 on the same query
    try:
        st = cvc5_check(s.to_smt2(), timeout_s)
        if st == "unsat":
            return "proved", None, time.time() - t0, "cvc5"
    except Exception:
        pass
    return "unknown", None, time.time() - t0, "z3+cvc5"


def cvc5_check(smt2: str, timeout_s=10):
    with tempfile.NamedTemporaryFile("w", suffix=".smt2", delete=True) as f:
        f.write("(set-logic QF_NRA)\n" + smt2)
        f.flush()
        try:
            out = subprocess.run(["/usr/bin/cvc5", "--lang", "smt2", f"--tlimit={int(timeout_s * 1000)}", f.name],
                                 capture_output=True, text=True, timeout=timeout_s + 5).stdout
        except subprocess.TimeoutExpired:
            return "unknown"
    out = out.strip().splitlines()
    return out[0] if out else "unknown"


def model_value(model, x):
    v = model.eval(x, model_completion=True)
    try:
        if z3.is_rational_value(v):
            return float(Fraction(v.numerator_as_long(), v.denominator_as_long()))
        if z3.is_algebraic_value(v):
            return float(v.approx(20).as_fraction())
    except Exception:
        pass
    try:
        return float(v.as_decimal(17).rstrip("?"))
    except Exception:
        return None


# ---------------------------------------------------------------------------------------
# IR-level encoding


class IRSMT:
    def __init__(self, g, env):
        """env: INPUT payload -> z3 expr"""
        self.g = g
        self.env = env
        self.memo = {}
        self.side = []  # definitional constraints (sqrt atoms)
        self.aux = 0

    def fresh(self, name):
        self.aux += 1
        return z3.Real(f"{name}!{self.aux}")

    def b(self, n):
        """boolean view of a node"""
        op, args, payload = self.g.nodes[n]
        if op == "LT":
            return self.e(args[0]) < self.e(args[1])
        if op == "LE":
            return self.e(args[0]) <= self.e(args[1])
        if op == "EQ":
            return self.e(args[0]) == self.e(args[1])
        if op == "NE":
            return self.e(args[0]) != self.e(args[1])
        if op == "AND":
            return z3.And(self.b(args[0]), self.b(args[1]))
        if op == "OR":
            return z3.Or(self.b(args[0]), self.b(args[1]))
        if op == "NOT":
            return z3.Not(self.b(args[0]))
        return self.e(n) != 0

    def e(self, n):
        if n is None:
            return z3.RealVal(0)
        v = self.memo.get(n)
        if v is not None:
            return v
        op, args, payload = self.g.nodes[n]
        E = self.e
        if op == "INPUT":
            v = self.env[payload]
        elif op == "CONST":
            if isinstance(payload, str):
                raise NotImplementedError("non-finite constant")
            v = q(payload)
        elif op == "ADD":
            v = E(args[0]) + E(args[1])
        elif op == "SUB":
            v = E(args[0]) - E(args[1])
        elif op == "MUL":
            v = E(args[0]) * E(args[1])
        elif op == "DIV":
            v = E(args[0]) / E(args[1])
        elif op == "NEG":
            v = -E(args[0])
        elif op == "SQ":
            v = E(args[0]) * E(args[0])
        elif op == "TWICE":
            v = 2 * E(args[0])
        elif op == "INV":
            v = 1 / E(args[0])
        elif op == "ASSIGN":
            v = E(args[0])
        elif op == "FABS":
            a = E(args[0])
            v = z3.If(a >= 0, a, -a)
        elif op == "SIGN":
            a = E(args[0])
            v = z3.If(a > 0, z3.RealVal(1), z3.If(a < 0, z3.RealVal(-1), z3.RealVal(0)))
        elif op == "FMIN":
            a, b = E(args[0]), E(args[1])
            v = z3.If(a < b, a, b)
        elif op == "FMAX":
            a, b = E(args[0]), E(args[1])
            v = z3.If(a > b, a, b)
        elif op == "IF_ELSE_ZERO":
            v = z3.If(self.b(args[0]), E(args[1]), z3.RealVal(0))
        elif op in ("LT", "LE", "EQ", "NE", "AND", "OR", "NOT"):
            v = z3.If(self.b(n), z3.RealVal(1), z3.RealVal(0))
        elif op == "SQRT":
            a = E(args[0])
            s = self.fresh("sqrt")
            self.side.append(z3.Implies(a >= 0, z3.And(s >= 0, s * s == a)))
            v = s
        elif op in ("POW", "CONSTPOW"):
            ex = self.g.nodes[args[1]]
            if ex[0] != "CONST" or isinstance(ex[2], str):
                raise NotImplementedError("pow with non-constant exponent")
            k = ex[2]
            a = E(args[0])
            if k.denominator == 1 and k >= 0:
                v = z3.RealVal(1)
                for _ in range(int(k)):
                    v = v * a
            elif k.denominator == 1:
                v = z3.RealVal(1)
                for _ in range(int(-k)):
                    v = v * a
                v = 1 / v
            else:
                raise NotImplementedError(f"pow exponent {k}")
        else:
            h = getattr(self, "hook", None)
            v = h(self, n) if h else None
            if v is None:
                raise NotImplementedError(f"IR->SMT: op {op}")
        self.memo[n] = v
        return v
