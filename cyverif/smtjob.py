"""SMT jobs: pre/postconditions over the extracted IR of a real function, decided by z3/cvc5 (QF_NRA).

The encoder is hybrid: sub-expressions without branching are first normalised exactly in the quotient
ring (so that e.g. (4 l u)/(4 l) is the polynomial u, not a nonlinear z3 term), conditions that are
decided by the `requires` are folded (asked to the solver, both ways), and only the genuinely
piecewise structure (if_else / fmin / fmax / fabs) reaches z3 as ITE terms.

goal = Goal(id, z3fn(V, O) -> z3 Bool, numfn(vin, vout) -> True/False/None)
V[name] / O[name]: matrices (lists of lists) of z3 terms for inputs / outputs.
A `sat` answer is a counter-model: its input values are replayed on the real CasADi function and the
postcondition is re-evaluated numerically before a violation is reported with a concrete input.
"""
from __future__ import annotations

import math
import random
import time
import traceback
from dataclasses import dataclass
from fractions import Fraction

import casadi as ca
import z3

from . import ir, smt
from .harness import ERROR, PROVED, REFUTED, UNDECIDED, Result
from .lower import Lowerer
from .ring import EngineError, Frac, Ring

ARITH = {"ADD", "SUB", "MUL", "DIV", "NEG", "SQ", "TWICE", "INV", "ASSIGN"}


class Hybrid:
    def __init__(self, g, low: Lowerer, rs: smt.RingSMT, requires, fold_timeout=1.0):
        self.g, self.low, self.rs = g, low, rs
        self.requires = list(requires)
        self.memo = {}
        self.cmemo = {}
        self.side = []
        self.aux = 0
        self.fold_timeout = fold_timeout
        self.folded = 0
        self.queries = 0

    # -- helpers --
    def z(self, v):
        kind, x = v
        return self.rs.frac(x) if kind == "F" else x

    def F(self, x):
        return ("F", Frac.of(self.low.R, x))

    def _assumptions(self):
        return self.requires + self.rs.atom_constraints() + self.side

    def _valid(self, formula):
        """True if formula is valid under the assumptions, False if its negation is valid, None otherwise"""
        self.queries += 1
        s = z3.Solver()
        s.set("timeout", int(self.fold_timeout * 1000))
        for a in self._assumptions():
            s.add(a)
        s.push()
        s.add(z3.Not(formula))
        r1 = s.check()
        s.pop()
        if r1 == z3.unsat:
            self.folded += 1
            return True
        s.add(formula)
        r2 = s.check()
        if r2 == z3.unsat:
            self.folded += 1
            return False
        return None

    # -- conditions: returns Python bool (folded) or z3 Bool --
    def cond(self, n):
        if n in self.cmemo:
            return self.cmemo[n]
        op, args, payload = self.g.nodes[n]
        if op == "NOT":
            c = self.cond(args[0])
            r = (not c) if isinstance(c, bool) else z3.Not(c)
        elif op in ("AND", "OR"):
            a, b = self.cond(args[0]), self.cond(args[1])
            if op == "AND":
                if a is False or b is False:
                    r = False
                elif a is True:
                    r = b
                elif b is True:
                    r = a
                else:
                    r = z3.And(a, b)
            else:
                if a is True or b is True:
                    r = True
                elif a is False:
                    r = b
                elif b is False:
                    r = a
                else:
                    r = z3.Or(a, b)
        elif op in ("LT", "LE", "EQ", "NE"):
            r = self.compare(op, self.val(args[0]), self.val(args[1]))
        else:
            v = self.val(n)
            if v[0] == "F" and v[1].is_const():
                r = v[1].const_value() != 0
            else:
                r = self.z(v) != 0
        self.cmemo[n] = r
        return r

    def compare(self, op, a, b):
        if a[0] == "F" and b[0] == "F":
            d = a[1] - b[1]
            if d.is_const():
                c = d.const_value()
                return {"LT": c < 0, "LE": c <= 0, "EQ": c == 0, "NE": c != 0}[op]
            # drop factors of known sign (positive variables, positive denominators) before asking the solver
            p = self._reduced_sign_poly(d)
            if p is not None:
                zp = self.rs.poly(p)
                f = {"LT": zp < 0, "LE": zp <= 0, "EQ": zp == 0, "NE": zp != 0}[op]
                v = self._valid(f)
                return f if v is None else v
        za, zb = self.z(a), self.z(b)
        f = {"LT": za < zb, "LE": za <= zb, "EQ": za == zb, "NE": za != zb}[op]
        if a[0] == "F" and b[0] == "F":
            v = self._valid(f)
            if v is not None:
                return v
        return f

    def _reduced_sign_poly(self, d):
        """d = a - b as Frac; returns a polynomial with the same sign as d (given all denominators and dropped
        factors are strictly positive), or None"""
        R = self.low.R
        pos = getattr(R, "positive", set())

        def positive(f):
            if R.syntactically_nonneg(f, strict=True):
                return True
            return len(f.t) == 1 and all(i in pos for i, e in R._unpack(next(iter(f.t)))) and next(iter(f.t.values())) > 0

        for f, e in d.den.items():
            if not positive(f) and e % 2:
                return None
        try:
            c, facs = R.factor(d.num)
        except Exception:
            return None
        p = R.const(c)
        for f, e in facs:
            if positive(f) or (e % 2 == 0 and False):
                continue
            p = p * (f ** e)
        return p

    # -- values --
    def val(self, n):
        if n is None:
            return self.F(0)
        v = self.memo.get(n)
        if v is None:
            v = self._val(n)
            self.memo[n] = v
        return v

    def _val(self, n):
        g, low = self.g, self.low
        op, args, payload = g.nodes[n]
        if op == "INPUT":
            x = low.env[payload]
            if callable(x):
                x = x(low)
            return self.F(x)
        if op == "CONST":
            if isinstance(payload, str):
                raise NotImplementedError("non-finite constant")
            return self.F(payload)
        if op in ARITH:
            vs = [self.val(a) for a in args]
            if all(v[0] == "F" for v in vs):
                try:
                    xs = [v[1] for v in vs]
                    if op == "ADD":
                        return ("F", xs[0] + xs[1])
                    if op == "SUB":
                        return ("F", xs[0] - xs[1])
                    if op == "MUL":
                        return ("F", xs[0] * xs[1])
                    if op == "DIV":
                        return ("F", xs[0] / xs[1])
                    if op == "NEG":
                        return ("F", -xs[0])
                    if op == "SQ":
                        return ("F", xs[0] * xs[0])
                    if op == "TWICE":
                        return ("F", xs[0] * 2)
                    if op == "INV":
                        return ("F", xs[0].inv())
                    if op == "ASSIGN":
                        return ("F", xs[0])
                except EngineError:
                    pass
            zs = [self.z(v) for v in vs]
            if op == "ADD":
                return ("Z", zs[0] + zs[1])
            if op == "SUB":
                return ("Z", zs[0] - zs[1])
            if op == "MUL":
                # constant * piecewise stays linear for the solver
                return ("Z", zs[0] * zs[1])
            if op == "DIV":
                return ("Z", zs[0] / zs[1])
            if op == "NEG":
                return ("Z", -zs[0])
            if op == "SQ":
                return ("Z", zs[0] * zs[0])
            if op == "TWICE":
                return ("Z", 2 * zs[0])
            if op == "INV":
                return ("Z", 1 / zs[0])
            return ("Z", zs[0])
        if op == "IF_ELSE_ZERO":
            c = self.cond(args[0])
            if c is True:
                return self.val(args[1])
            if c is False:
                return self.F(0)
            return ("Z", z3.If(c, self.z(self.val(args[1])), z3.RealVal(0)))
        if op in ("FMIN", "FMAX"):
            a, b = self.val(args[0]), self.val(args[1])
            lt = self.compare("LT", a, b)
            if isinstance(lt, bool):
                return (a if lt else b) if op == "FMIN" else (b if lt else a)
            za, zb = self.z(a), self.z(b)
            return ("Z", z3.If(lt, za, zb) if op == "FMIN" else z3.If(lt, zb, za))
        if op == "FABS":
            a = self.val(args[0])
            ge = self.compare("LE", self.F(0), a)
            if isinstance(ge, bool):
                return a if ge else (("F", -a[1]) if a[0] == "F" else ("Z", -a[1]))
            za = self.z(a)
            return ("Z", z3.If(ge, za, -za))
        if op == "SIGN":
            za = self.z(self.val(args[0]))
            return ("Z", z3.If(za > 0, z3.RealVal(1), z3.If(za < 0, z3.RealVal(-1), z3.RealVal(0))))
        if op in ("LT", "LE", "EQ", "NE", "AND", "OR", "NOT"):
            c = self.cond(n)
            if isinstance(c, bool):
                return self.F(1 if c else 0)
            return ("Z", z3.If(c, z3.RealVal(1), z3.RealVal(0)))
        if op == "SQRT":
            a = self.val(args[0])
            if a[0] == "F":
                try:
                    return ("F", low.sqrt(a[1]))
                except EngineError:
                    pass
            za = self.z(a)
            self.aux += 1
            s = z3.Real(f"sqrt!{self.aux}")
            self.side.append(z3.Implies(za >= 0, z3.And(s >= 0, s * s == za)))
            return ("Z", s)
        if op in ("POW", "CONSTPOW"):
            e = self.val(args[1])
            a = self.val(args[0])
            if e[0] == "F" and e[1].is_const() and e[1].const_value().denominator == 1:
                k = int(e[1].const_value())
                if a[0] == "F":
                    return ("F", a[1] ** k)
                za = self.z(a)
                r = z3.RealVal(1)
                for _ in range(abs(k)):
                    r = r * za
                return ("Z", r if k >= 0 else 1 / r)
            raise NotImplementedError("pow with non-integer exponent in SMT job")
        if op in ("SIN", "COS", "TAN", "ASIN", "ACOS", "ATAN", "ATAN2"):
            vs = [self.val(a) for a in args]
            if all(v[0] == "F" for v in vs):
                return ("F", low._lower(n))
            h = getattr(self, "transcendental", None)
            if h is not None:
                r = h(self, n)
                if r is not None:
                    return r
            raise NotImplementedError(f"{op} of a piecewise value")
        if op in ("FMOD", "REMAINDER"):
            h = getattr(self, "transcendental", None)
            if h is not None:
                r = h(self, n)
                if r is not None:
                    return r
        raise NotImplementedError(f"op {op} in SMT job")


@dataclass
class Goal:
    id: str
    z3fn: object
    numfn: object = None
    timeout: float = 60.0
    extra_requires: object = None  # callable(V, O) -> list of z3 constraints (goal-specific precondition)


class SmtJob:
    def __init__(self, id, inputs, build, requires, goals, functions=(), note="", lemmas=(), assumptions=(),
                 numeric_build=None, transcendental=None, fold_timeout=1.0):
        """inputs: list of Sorts; build(**sx) -> dict name -> SX; requires(V) -> [z3]"""
        self.id = id
        self.inputs = inputs
        self.build = build
        self.requires = requires
        self.goals = goals
        self.functions = list(functions)
        self.note = note
        self.lemmas = list(lemmas)
        self.assumptions = list(assumptions)
        self.inputs_desc = [s.describe() for s in inputs]
        self.numeric_build = numeric_build
        self.transcendental = transcendental
        self.fold_timeout = fold_timeout

    def _fn(self, build=None):
        ins = {s.name: s.sx() for s in self.inputs}
        outs = (build or self.build)(**ins)
        fn = ca.Function("num", list(ins.values()), [ca.SX(outs[k]) for k in outs], list(ins), ["o_" + k for k in outs])
        return ins, outs, fn

    def numeric(self, fn, vin):
        res = fn(*[s.dm(vin[s.name]) for s in self.inputs])
        if not isinstance(res, (list, tuple)):
            res = [res]
        return {k[2:]: ca.DM(v).full().tolist() for k, v in zip(fn.name_out(), res)}

    def run(self, seed=0):
        t0 = time.time()
        try:
            ins, outs, fn = self._fn()
            nfn = self._fn(self.numeric_build)[2] if self.numeric_build else fn
        except Exception as e:
            return [Result(self.id, "normal-return", REFUTED, "TRACE", "", time.time() - t0,
                           f"real function raised {type(e).__name__}: {e}\n{traceback.format_exc(limit=5)}", {"inputs": {}})]
        try:
            g, onodes, n_instr = ir.extract(ins, outs)
            self.n_instr = n_instr
            R = Ring()
            low = Lowerer(g, R, {}, [], None)
            for s in self.inputs:
                low.env.update(s.bind(low))
            rs = smt.RingSMT(low)
            V = {}
            for s in self.inputs:
                r, c = s.shape
                V[s.name] = [[(rs.frac(Frac.of(R, low.env[(s.name, i, j)])) if (s.name, i, j) in low.env else z3.RealVal(0)) for j in range(c)] for i in range(r)]
            req = list(self.requires(V))
            hy = Hybrid(g, low, rs, req, self.fold_timeout)
            if self.transcendental:
                hy.transcendental = self.transcendental
            O = {k: [[hy.z(hy.val(x)) for x in row] for row in onodes[k]] for k in onodes}
            base = req + rs.atom_constraints() + hy.side
        except Exception as e:
            return [Result(self.id, "encoding", ERROR, "SMT", "", time.time() - t0, f"{type(e).__name__}: {e}\n{traceback.format_exc(limit=6)}")]
        enc_s = time.time() - t0
        results = []
        for goal in self.goals:
            t1 = time.time()
            try:
                gz = goal.z3fn(V, O)
                assum = base + (list(goal.extra_requires(V, O)) if goal.extra_requires else [])
                st, model, secs, solver = smt.check(assum, gz, goal.timeout)
            except Exception as e:
                results.append(Result(self.id, goal.id, ERROR, "SMT", "", time.time() - t1, f"{type(e).__name__}: {e}\n{traceback.format_exc(limit=4)}"))
                continue
            if st == "proved":
                results.append(Result(self.id, goal.id, PROVED, f"SMT:{solver}", "", secs,
                                      f"unsat in {secs:.2f}s ({n_instr} instructions; {hy.folded} conditions folded under requires; encoding {enc_s:.1f}s)", None, 1))
            elif st == "refuted":
                vin = {s.name: [[smt.model_value(model, V[s.name][i][j]) for j in range(s.shape[1])] for i in range(s.shape[0])] for s in self.inputs}
                w = None
                detail = f"{solver} counter-model: " + ", ".join(f"{n}={vin[n]}" for n in vin)[:500]
                try:
                    if all(x is not None for n in vin for row in vin[n] for x in row):
                        vout = self.numeric(nfn, vin)
                        holds = goal.numfn(vin, vout) if goal.numfn else None
                        if holds is False:
                            w = {"inputs": vin, "goal": goal.id, "outputs": vout}
                            detail += " | replayed on the real function: postcondition violated"
                        else:
                            detail += " | replay on the real function did not reproduce the violation in floating point"
                except Exception as e:
                    detail += f" | replay error {e}"
                results.append(Result(self.id, goal.id, REFUTED, f"SMT:{solver}", "", secs, detail, w, 1))
            else:
                # the solvers gave up: look for a concrete counterexample by sampling the requires (never a proof, only a way
                # to turn "unknown" into a violation with an input replayed on the real function)
                w = None
                fals_err = ""
                try:
                    w = self._falsify(goal, V, O, req + (list(goal.extra_requires(V, O)) if goal.extra_requires else []), nfn, seed)
                except Exception as e:
                    w = None
                    fals_err = f"; sampling failed: {type(e).__name__}: {e}"
                if w is None:
                    # third attempt: z3's dedicated QF_NRA strategy (the incremental default solver gives up earlier)
                    try:
                        s3 = z3.SolverFor("QF_NRA")
                        s3.set("timeout", int(goal.timeout * 1000))
                        for a_ in assum:
                            s3.add(a_)
                        s3.add(z3.Not(gz))
                        r3 = s3.check()
                        if r3 == z3.unsat:
                            results.append(Result(self.id, goal.id, PROVED, "SMT:z3-qfnra", "", time.time() - t1, f"unsat by z3's QF_NRA strategy in {time.time() - t1:.1f}s", None, 1))
                            continue
                        if r3 == z3.sat:
                            m3 = s3.model()
                            vin = {s_.name: [[smt.model_value(m3, V[s_.name][i][j]) for j in range(s_.shape[1])] for i in range(s_.shape[0])] for s_ in self.inputs}
                            if all(x is not None for n_ in vin for row in vin[n_] for x in row):
                                vout = self.numeric(nfn, vin)
                                if goal.numfn and goal.numfn(vin, vout) is False:
                                    w = {"inputs": vin, "goal": goal.id, "outputs": vout}
                    except Exception:
                        pass
                if w is not None:
                    results.append(Result(self.id, goal.id, REFUTED, "SMT+SAMPLING", "", time.time() - t1,
                                          f"solvers returned unknown within {goal.timeout}s; a sampled input satisfying the requires violates the postcondition on the real function: "
                                          + ", ".join(f"{n}={w['inputs'][n]}" for n in w["inputs"])[:400], w, 1))
                else:
                    results.append(Result(self.id, goal.id, UNDECIDED, "SMT", "", secs, f"solvers returned unknown within {goal.timeout}s (no violating input among the samples either{fals_err})", None, 1))
        return results

    def _falsify(self, goal, V, O, requires, nfn, seed, n_samples=3000):
        if goal.numfn is None:
            return None
        import random
        from fractions import Fraction
        from z3 import z3util

        def num(e, sub):
            v = z3.simplify(z3.substitute(e, *sub)) if sub else z3.simplify(e)
            if z3.is_rational_value(v):
                return Fraction(v.numerator_as_long(), v.denominator_as_long())
            if z3.is_algebraic_value(v):
                return v.approx(20).as_fraction()
            return None

        flat = [(s, i, j, V[s.name][i][j]) for s in self.inputs for i in range(s.shape[0]) for j in range(s.shape[1])]
        allvars = {}
        for _, _, _, e in flat:
            for v in z3util.get_vars(e):
                allvars[str(v)] = v
        rng = random.Random(seed + 991)
        req_all = z3.And(requires) if requires else z3.BoolVal(True)
        zero = [(v, z3.RealVal(0)) for v in allvars.values()]
        for k in range(n_samples):
            samp = {}
            for s_ in self.inputs:
                try:
                    samp[s_.name] = s_.sample(rng)
                except Exception:
                    samp[s_.name] = [[rng.uniform(-2, 2) for _ in range(s_.shape[1])] for _ in range(s_.shape[0])]  # derived sort: value comes from its expression
            if k % 3 == 1:  # also probe zeros, which random sampling never hits
                samp = {n: [[(0.0 if rng.random() < 0.3 else x) for x in row] for row in m] for n, m in samp.items()}
            assign = {}
            for s_, i, j, e in flat:  # entries that are an affine function of ONE free variable fix that variable from the sort's sample
                vs = z3util.get_vars(e)
                if len(vs) == 1 and str(vs[0]) not in assign:
                    b0 = num(e, zero)
                    one = [(v, z3.RealVal(1 if str(v) == str(vs[0]) else 0)) for v in allvars.values()]
                    b1 = num(e, one)
                    if b0 is not None and b1 is not None and b1 != b0:
                        assign[str(vs[0])] = (Fraction(samp[s_.name][i][j]) - b0) / (b1 - b0)
            for nme in allvars:
                assign.setdefault(nme, Fraction(rng.uniform(-2, 2)).limit_denominator(10 ** 6))
            sub = [(allvars[n_], z3.RealVal(str(val))) for n_, val in assign.items()]
            if not z3.is_true(z3.simplify(z3.substitute(req_all, *sub))):
                continue
            vals = [num(e, sub) for _, _, _, e in flat]
            if any(x is None for x in vals):
                continue
            vin = {s.name: [[0.0] * s.shape[1] for _ in range(s.shape[0])] for s in self.inputs}
            for (s_, i, j, _), x in zip(flat, vals):
                vin[s_.name][i][j] = float(x)
            vout = self.numeric(nfn, vin)
            if goal.numfn(vin, vout) is False:
                return {"inputs": vin, "goal": goal.id, "outputs": vout}
        return None
    def replay(self, witness, tol=None):
        ins, outs, fn = self._fn(self.numeric_build)
        vin = witness["inputs"]
        vout = self.numeric(fn, vin)
        msgs = []
        failing = False
        for goal in self.goals:
            if witness.get("goal") not in (None, goal.id):
                continue
            if goal.numfn and goal.numfn(vin, vout) is False:
                failing = True
                msgs.append(f"{goal.id}: violated at the witness; outputs {str(vout)[:300]}")
        return failing, "; ".join(msgs)

