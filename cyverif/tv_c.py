"""Structural translation validation of CasADi-generated C against the Function's instruction list.

Both sides are symbolically executed into ONE hash-consed term DAG over arg[i][j]; every output non-zero
must be the same term (same operations, same operand order, constants equal as doubles).  Same term =>
same IEEE result for every input, including NaN/Inf in unselected branches, given the table
"C spelling <-> opcode" below (trusted; each row is what CasADi's own VM executes for that opcode).
"""
from __future__ import annotations

import math
import re
from fractions import Fraction

import casadi as ca

from .ir import Graph, OPNAME, UNARY, BINARY

VAR = r"(?:w\[\d+\]|a\d+|w\d+)"
BIN_INFIX = {"+": "ADD", "-": "SUB", "*": "MUL", "/": "DIV", "<": "LT", "<=": "LE", "==": "EQ", "!=": "NE", "&&": "AND", "||": "OR"}
FUNC1 = {"casadi_sq": "SQ", "sqrt": "SQRT", "sin": "SIN", "cos": "COS", "tan": "TAN", "asin": "ASIN", "acos": "ACOS", "atan": "ATAN",
         "casadi_fabs": "FABS", "fabs": "FABS", "casadi_sign": "SIGN", "exp": "EXP", "log": "LOG", "floor": "FLOOR", "ceil": "CEIL",
         "sinh": "SINH", "cosh": "COSH", "tanh": "TANH", "asinh": "ASINH", "acosh": "ACOSH", "atanh": "ATANH", "erf": "ERF",
         "casadi_log1p": "LOG1P", "casadi_expm1": "EXPM1", "log1p": "LOG1P", "expm1": "EXPM1"}
FUNC2 = {"pow": "POW", "atan2": "ATAN2", "casadi_fmin": "FMIN", "casadi_fmax": "FMAX", "fmin": "FMIN", "fmax": "FMAX", "fmod": "FMOD",
         "remainder": "REMAINDER", "copysign": "COPYSIGN", "casadi_hypot": "HYPOT", "hypot": "HYPOT"}

RE_IN = re.compile(rf"^({VAR})=arg\[(\d+)\]\? arg\[\d+\]\[(\d+)\] : 0;$")
RE_OUT = re.compile(rf"^if \(res\[(\d+)\]!=0\) res\[\d+\]\[(\d+)\]=({VAR});$")
RE_CONST = re.compile(rf"^({VAR})=(-?(?:[0-9][0-9.eE+-]*|casadi_inf|casadi_nan|-casadi_inf));$")
RE_BIN = re.compile(rf"^({VAR})=\(({VAR})(\+|-|\*|/|<=|<|==|!=|&&|\|\|)({VAR})\);$")
RE_NEG = re.compile(rf"^({VAR})=\(-\s*({VAR})\);$")
RE_NOT = re.compile(rf"^({VAR})=\(!({VAR})\);$")
RE_TWICE = re.compile(rf"^({VAR})=\(2\.\*\s*({VAR})\);$")
RE_INV = re.compile(rf"^({VAR})=\(1\./({VAR})\);$")
RE_IFZ = re.compile(rf"^({VAR})=\(({VAR})\?({VAR}):0\);$")
RE_F1 = re.compile(rf"^({VAR})=([a-z_0-9]+)\(\s*({VAR})\s*\);$")
RE_F2 = re.compile(rf"^({VAR})=([a-z_0-9]+)\(\s*({VAR})\s*,\s*({VAR})\s*\);$")
RE_ASSIGN = re.compile(rf"^({VAR})=({VAR});$")


class TVError(Exception):
    pass


def const_payload(tok: str):
    if tok in ("casadi_inf",):
        return "inf"
    if tok == "-casadi_inf":
        return "-inf"
    if tok == "casadi_nan":
        return "nan"
    v = float(tok)
    return Fraction(v)


def exec_c_body(lines, g: Graph):
    """returns dict (out_index, nz) -> node"""
    env = {}
    outs = {}
    for raw in lines:
        s = raw.strip()
        if not s or s.startswith("/*") or s.startswith("//"):
            continue
        if s.startswith("casadi_real ") and "=" not in s:
            continue  # local declarations (avoid_stack=False): casadi_real a0, a1, ...;
        if s == "return 0;":
            continue
        m = RE_IN.match(s)
        if m:
            env[m.group(1)] = g.mk("INPUT", (), (int(m.group(2)), int(m.group(3))))
            continue
        m = RE_OUT.match(s)
        if m:
            outs[(int(m.group(1)), int(m.group(2)))] = env[m.group(3)]
            continue
        m = RE_CONST.match(s)
        if m:
            env[m.group(1)] = g.mk("CONST", (), const_payload(m.group(2)))
            continue
        m = RE_BIN.match(s)
        if m:
            env[m.group(1)] = g.mk(BIN_INFIX[m.group(3)], (env[m.group(2)], env[m.group(4)]))
            continue
        m = RE_TWICE.match(s)
        if m:
            env[m.group(1)] = g.mk("TWICE", (env[m.group(2)],))
            continue
        m = RE_INV.match(s)
        if m:
            env[m.group(1)] = g.mk("INV", (env[m.group(2)],))
            continue
        m = RE_NEG.match(s)
        if m:
            env[m.group(1)] = g.mk("NEG", (env[m.group(2)],))
            continue
        m = RE_NOT.match(s)
        if m:
            env[m.group(1)] = g.mk("NOT", (env[m.group(2)],))
            continue
        m = RE_IFZ.match(s)
        if m:
            env[m.group(1)] = g.mk("IF_ELSE_ZERO", (env[m.group(2)], env[m.group(3)]))
            continue
        m = RE_F2.match(s)
        if m and m.group(2) in FUNC2:
            env[m.group(1)] = g.mk(FUNC2[m.group(2)], (env[m.group(3)], env[m.group(4)]))
            continue
        m = RE_F1.match(s)
        if m and m.group(2) in FUNC1:
            env[m.group(1)] = g.mk(FUNC1[m.group(2)], (env[m.group(3)],))
            continue
        m = RE_ASSIGN.match(s)
        if m:
            env[m.group(1)] = env[m.group(2)]
            continue
        raise TVError(f"unrecognised C statement: {s}")
    return outs


def exec_function(f: ca.Function, g: Graph):
    """same DAG from the Function's own instruction list (the algorithm the code generator prints)"""
    work = {}
    outs = {}
    for k in range(f.n_instructions()):
        name = OPNAME[f.instruction_id(k)]
        if name == "INPUT":
            a, nz = f.instruction_input(k)
            (w,) = f.instruction_output(k)
            work[w] = g.mk("INPUT", (), (a, nz))
        elif name == "OUTPUT":
            (w,) = f.instruction_input(k)
            o, nz = f.instruction_output(k)
            outs[(o, nz)] = work[w]
        elif name == "CONST":
            (w,) = f.instruction_output(k)
            v = f.instruction_constant(k)
            payload = "nan" if math.isnan(v) else ("inf" if v == math.inf else ("-inf" if v == -math.inf else Fraction(v)))
            work[w] = g.mk("CONST", (), payload)
        elif name == "CONSTPOW":
            a, b = f.instruction_input(k)
            (w,) = f.instruction_output(k)
            work[w] = g.mk("POW", (work[a], work[b]))  # printed as pow(a,b) like OP_POW
        elif name in UNARY:
            (a,) = f.instruction_input(k)
            (w,) = f.instruction_output(k)
            work[w] = g.mk(name, (work[a],))
        elif name in BINARY:
            a, b = f.instruction_input(k)
            (w,) = f.instruction_output(k)
            work[w] = g.mk(name, (work[a], work[b]))
        else:
            raise TVError(f"opcode {name} not in the translation table")
    return outs


RE_FDEF = re.compile(r"^static int (casadi_f\d+)\(const casadi_real\*\* arg, casadi_real\*\* res, casadi_int\* iw, casadi_real\* w, (?:int|void\*) mem\) \{$")
PFX = r"(?:extern \"C\" )?(?:CASADI_SYMBOL_EXPORT )?"
RE_EXPORT = re.compile(r"^" + PFX + r"int (\w+)\(const casadi_real\*\* arg, casadi_real\*\* res, casadi_int\* iw, casadi_real\* w, (?:int|void\*) mem\)\s*\{$")
RE_CALL = re.compile(r"return (casadi_f\d+)\(arg, res, iw, w, mem\);")
RE_SPARS = re.compile(r"^static const casadi_int (casadi_s\d+)\[(\d+)\] =\s*\{([^}]*)\};$")
RE_DEFINE = re.compile(r"^\s*#define (casadi_\w+) CASADI_PREFIX\((\w+)\)")


def parse_c_file(text: str):
    """returns dict: bodies {casadi_fN: [lines]}, exports {name: casadi_fN}, sparsities {casadi_sN: [ints]},
    sparsity_in/out {name: {i: casadi_sN}}, n_in/n_out {name: int}"""
    lines = text.splitlines()
    bodies, exports, spars = {}, {}, {}
    sp_in, sp_out, n_in, n_out = {}, {}, {}, {}
    i = 0
    while i < len(lines):
        ln = lines[i].rstrip()
        m = RE_FDEF.match(ln)
        if m:
            body = []
            i += 1
            while lines[i].rstrip() != "}":
                body.append(lines[i])
                i += 1
            bodies[m.group(1)] = body
            i += 1
            continue
        if ln.strip().startswith("static const casadi_int casadi_s") and "};" not in ln:
            j = i
            buf = ln.strip()
            while "};" not in buf:
                j += 1
                buf += " " + lines[j].strip()
            ln = buf
            i = j
        m = RE_SPARS.match(ln.strip())
        if m:
            spars[m.group(1)] = [int(x) for x in m.group(3).split(",") if x.strip()]
            i += 1
            continue
        m = RE_EXPORT.match(ln.strip())
        if m and not m.group(1).startswith("casadi_f"):
            name = m.group(1)
            j = i + 1
            tgt = None
            while "}" not in lines[j] or tgt is None:
                mm = RE_CALL.search(lines[j])
                if mm:
                    tgt = mm.group(1)
                    break
                j += 1
                if j > i + 6:
                    break
            if tgt:
                if name in exports:
                    raise TVError(f"function {name} exported twice")
                exports[name] = tgt
            i += 1
            continue
        mm = re.match(r"^" + PFX + r"const casadi_int\* (\w+)_sparsity_(in|out)\(casadi_int i\) \{$", ln.strip())
        if mm:
            name, kind = mm.group(1), mm.group(2)
            d = {}
            j = i + 1
            while not lines[j].startswith("}"):
                c = re.search(r"case (\d+): return (casadi_s\d+);", lines[j])
                if c:
                    d[int(c.group(1))] = c.group(2)
                j += 1
            (sp_in if kind == "in" else sp_out)[name] = d
            i = j
            continue
        mm = re.match(r"^" + PFX + r"casadi_int (\w+)_n_(in|out)\(void\) \{ return (\d+);\}$", ln.strip())
        if mm:
            (n_in if mm.group(2) == "in" else n_out)[mm.group(1)] = int(mm.group(3))
        i += 1
    return {"bodies": bodies, "exports": exports, "spars": spars, "sp_in": sp_in, "sp_out": sp_out, "n_in": n_in, "n_out": n_out}


def validate_function(parsed, f: ca.Function):
    """returns list of discrepancy strings (empty = validated) and number of output terms compared"""
    name = f.name()
    issues = []
    if name not in parsed["exports"]:
        return [f"function {name} is not exported by the generated file"], 0
    body = parsed["bodies"].get(parsed["exports"][name])
    if body is None:
        return [f"body {parsed['exports'][name]} of {name} not found"], 0
    g = Graph()
    try:
        c_outs = exec_c_body(body, g)
        f_outs = exec_function(f, g)
    except (TVError, KeyError) as e:
        return [f"{name}: {type(e).__name__}: {e}"], 0
    if set(c_outs) != set(f_outs):
        issues.append(f"{name}: output non-zeros differ: only in C {sorted(set(c_outs) - set(f_outs))[:5]}, only in Function {sorted(set(f_outs) - set(c_outs))[:5]}")
    n = 0
    for key in sorted(set(c_outs) & set(f_outs)):
        n += 1
        if c_outs[key] != f_outs[key]:
            issues.append(f"{name}: output {key}: C term {describe(g, c_outs[key])} != Function term {describe(g, f_outs[key])}")
            if len(issues) > 5:
                break
    # arity and sparsity layout
    if parsed["n_in"].get(name) != f.n_in() or parsed["n_out"].get(name) != f.n_out():
        issues.append(f"{name}: n_in/n_out {parsed['n_in'].get(name)}/{parsed['n_out'].get(name)} vs {f.n_in()}/{f.n_out()}")
    for kind, tab, nn, sp in (("in", parsed["sp_in"], f.n_in(), f.sparsity_in), ("out", parsed["sp_out"], f.n_out(), f.sparsity_out)):
        d = tab.get(name, {})
        for i in range(nn):
            want = decode_sparsity([int(x) for x in sp(i).compress()])
            got = parsed["spars"].get(d.get(i))
            if got is None or decode_sparsity(got) != want:
                issues.append(f"{name}: sparsity_{kind}({i}) {got} != {[int(x) for x in sp(i).compress()]}")
    return issues, n


def decode_sparsity(v):
    """CasADi compressed column storage [nrow, ncol, colind(ncol+1), row(nnz)], or the dense shorthand [nrow, ncol, 1]"""
    nrow, ncol = v[0], v[1]
    if len(v) == 3 and v[2] == 1:
        return (nrow, ncol, tuple(nrow * j for j in range(ncol + 1)), tuple(i for _ in range(ncol) for i in range(nrow)))
    colind = tuple(v[2:2 + ncol + 1])
    rows = tuple(v[2 + ncol + 1:2 + ncol + 1 + colind[-1]])
    return (nrow, ncol, colind, rows)


def describe(g: Graph, n, depth=2):
    op, args, payload = g.nodes[n]
    if op in ("INPUT", "CONST"):
        return f"{op}{payload if op == 'INPUT' else float(payload) if not isinstance(payload, str) else payload}"
    if depth == 0:
        return op + "(...)"
    return op + "(" + ",".join(describe(g, a, depth - 1) for a in args) + ")"
