"""IR extraction: real cyecca code run on CasADi SX symbols -> hash-consed scalar DAG.

The extraction is mechanical: the SX outputs returned by the real function are wrapped
in a throw-away casadi.Function and its instruction list is read back.  Nothing of the
arithmetic is dropped; constants are kept as exact dyadic rationals (Fraction(float)).
Structural zeros are read from sparsity_out.  Deliberately independent from
cyecca.symbolic.casadi_to_sympy (which is itself under test in C19).
"""
from __future__ import annotations

import math
from fractions import Fraction

import casadi as ca

OPNAME = {getattr(ca, n): n[3:] for n in dir(ca) if n.startswith("OP_")}

UNARY = {
    "NEG", "SQ", "TWICE", "SQRT", "SIN", "COS", "TAN", "ASIN", "ACOS", "ATAN", "FABS",
    "SIGN", "NOT", "INV", "EXP", "LOG", "FLOOR", "CEIL", "SINH", "COSH", "TANH",
    "ASINH", "ACOSH", "ATANH", "ERF", "LOG1P", "EXPM1", "ASSIGN",
}
BINARY = {
    "ADD", "SUB", "MUL", "DIV", "POW", "CONSTPOW", "LT", "LE", "EQ", "NE", "AND", "OR",
    "IF_ELSE_ZERO", "FMIN", "FMAX", "ATAN2", "FMOD", "REMAINDER", "COPYSIGN", "HYPOT",
}
COND_OPS = {"LT", "LE", "EQ", "NE", "AND", "OR", "NOT"}


class Graph:
    """Hash-consed DAG.  node = (op, args, payload)."""

    def __init__(self):
        self.nodes = []  # list of (op, args tuple, payload)
        self.index = {}
        self.input_names = []  # per input slot: (argname, flat index)

    def mk(self, op, args=(), payload=None):
        key = (op, tuple(args), payload)
        i = self.index.get(key)
        if i is None:
            i = len(self.nodes)
            self.nodes.append(key)
            self.index[key] = i
        return i

    def op(self, i):
        return self.nodes[i][0]

    def args(self, i):
        return self.nodes[i][1]

    def payload(self, i):
        return self.nodes[i][2]

    def const(self, value):
        return self.mk("CONST", (), Fraction(value) if not isinstance(value, Fraction) else value)

    def support(self, roots):
        """set of input payloads reachable from the given node ids (frame/dependency analysis)"""
        seen = set()
        stack = list(roots)
        ins = set()
        while stack:
            n = stack.pop()
            if n in seen or n is None:
                continue
            seen.add(n)
            op, args, payload = self.nodes[n]
            if op == "INPUT":
                ins.add(payload)
            stack.extend(args)
        return ins

    def ancestors(self, roots):
        """set of node ids reachable from the given roots (the roots included)"""
        seen = set()
        stack = [r for r in roots if r is not None]
        while stack:
            n = stack.pop()
            if n in seen:
                continue
            seen.add(n)
            stack.extend(self.nodes[n][1])
        return seen

    def size(self, roots):
        seen = set()
        stack = [r for r in roots if r is not None]
        while stack:
            n = stack.pop()
            if n in seen:
                continue
            seen.add(n)
            stack.extend(self.nodes[n][1])
        return len(seen)


def _const_payload(v: float):
    if math.isnan(v):
        return "nan"
    if math.isinf(v):
        return "inf" if v > 0 else "-inf"
    return Fraction(v)


def extract(inputs: dict, outputs: dict, graph: Graph | None = None):
    """inputs: name -> SX symbolic (dense, purely symbolic); outputs: name -> SX (any sparsity).

    Returns (graph, outs) with outs[name] = list of rows of node ids (None = structural zero).
    """
    g = graph or Graph()
    in_names = list(inputs)
    out_names = list(outputs)
    ins = [inputs[k] for k in in_names]
    outs = [ca.SX(outputs[k]) for k in out_names]
    for k, s in zip(in_names, ins):
        assert isinstance(s, ca.SX) and s.is_valid_input(), f"input {k} is not purely symbolic"
    f = ca.Function("trace", ins, outs, in_names, ["o_" + k for k in out_names])
    work = {}
    result = {}
    for name, o in zip(out_names, outs):
        r, c = o.shape
        result[name] = [[None] * c for _ in range(r)]
    nz_maps = []
    for i in range(len(outs)):
        sp = f.sparsity_out(i)
        rows, cols = sp.get_triplet()
        nz_maps.append(list(zip(rows, cols)))
    in_nz_maps = []
    for i in range(len(ins)):
        sp = f.sparsity_in(i)
        rows, cols = sp.get_triplet()
        in_nz_maps.append(list(zip(rows, cols)))
    n_instr = f.n_instructions()
    for k in range(n_instr):
        opid = f.instruction_id(k)
        name = OPNAME[opid]
        if name == "INPUT":
            a, nz = f.instruction_input(k)
            (w,) = f.instruction_output(k)
            r, c = in_nz_maps[a][nz]
            work[w] = g.mk("INPUT", (), (in_names[a], r, c))
        elif name == "OUTPUT":
            (w,) = f.instruction_input(k)
            o, nz = f.instruction_output(k)
            r, c = nz_maps[o][nz]
            result[out_names[o]][r][c] = work[w]
        elif name == "CONST":
            (w,) = f.instruction_output(k)
            work[w] = g.mk("CONST", (), _const_payload(f.instruction_constant(k)))
        elif name in UNARY:
            (a,) = f.instruction_input(k)
            (w,) = f.instruction_output(k)
            work[w] = g.mk(name, (work[a],))
        elif name in BINARY:
            a, b = f.instruction_input(k)
            (w,) = f.instruction_output(k)
            work[w] = g.mk(name, (work[a], work[b]))
        else:
            raise NotImplementedError(f"unsupported opcode {name} in extracted graph")
    return g, result, n_instr


# ---------------------------------------------------------------------------------------
# float evaluator of the IR (used for the IR-vs-Function cross-check, witness search and
# numeric path-condition evaluation)


def eval_float(g: Graph, roots, env: dict):
    """env: (argname, r, c) -> float.  returns dict node -> float for all reachable nodes.
    IF_ELSE_ZERO(c, v) is 0 when c is false even when v is NaN (CasADi semantics)."""
    val = {}
    order = []
    seen = set()
    stack = [(r, False) for r in roots if r is not None]
    while stack:
        n, done = stack.pop()
        if done:
            order.append(n)
            continue
        if n in seen:
            continue
        seen.add(n)
        stack.append((n, True))
        for a in g.args(n):
            if a not in seen:
                stack.append((a, False))
    for n in order:
        op, args, payload = g.nodes[n]
        a = [val[x] for x in args]
        try:
            val[n] = _evalop(op, a, payload, env)
        except (ValueError, ZeroDivisionError, OverflowError):
            val[n] = float("nan")
    return val


def _evalop(op, a, payload, env):
    if op == "INPUT":
        return float(env[payload])
    if op == "CONST":
        return float(payload) if not isinstance(payload, str) else float(payload)
    if op == "ADD":
        return a[0] + a[1]
    if op == "SUB":
        return a[0] - a[1]
    if op == "MUL":
        return a[0] * a[1]
    if op == "DIV":
        if a[1] == 0:
            return math.copysign(math.inf, a[0]) * (1 if math.copysign(1, a[1]) > 0 else -1) if a[0] != 0 and not math.isnan(a[0]) else float("nan")
        return a[0] / a[1]
    if op == "NEG":
        return -a[0]
    if op == "SQ":
        return a[0] * a[0]
    if op == "TWICE":
        return 2 * a[0]
    if op == "INV":
        return 1 / a[0] if a[0] != 0 else math.inf
    if op == "SQRT":
        return math.sqrt(a[0]) if a[0] >= 0 else float("nan")
    if op in ("POW", "CONSTPOW"):
        try:
            return math.pow(a[0], a[1])
        except ValueError:
            return float("nan")
    if op == "SIN":
        return math.sin(a[0])
    if op == "COS":
        return math.cos(a[0])
    if op == "TAN":
        return math.tan(a[0])
    if op == "ASIN":
        return math.asin(a[0]) if -1 <= a[0] <= 1 else float("nan")
    if op == "ACOS":
        return math.acos(a[0]) if -1 <= a[0] <= 1 else float("nan")
    if op == "ATAN":
        return math.atan(a[0])
    if op == "ATAN2":
        return math.atan2(a[0], a[1])
    if op == "FABS":
        return abs(a[0])
    if op == "SIGN":
        return (a[0] > 0) - (a[0] < 0) if not math.isnan(a[0]) else float("nan")
    if op == "LT":
        return float(a[0] < a[1])
    if op == "LE":
        return float(a[0] <= a[1])
    if op == "EQ":
        return float(a[0] == a[1])
    if op == "NE":
        return float(a[0] != a[1])
    if op == "AND":
        return float(bool(a[0]) and bool(a[1]))
    if op == "OR":
        return float(bool(a[0]) or bool(a[1]))
    if op == "NOT":
        return float(not bool(a[0]))
    if op == "IF_ELSE_ZERO":
        return a[1] if a[0] != 0 else 0.0
    if op == "FMIN":
        return min(a[0], a[1])
    if op == "FMAX":
        return max(a[0], a[1])
    if op == "FMOD":
        return math.fmod(a[0], a[1])
    if op == "REMAINDER":
        return math.remainder(a[0], a[1])
    if op == "EXP":
        return math.exp(a[0])
    if op == "LOG":
        return math.log(a[0]) if a[0] > 0 else float("nan")
    if op == "FLOOR":
        return float(math.floor(a[0]))
    if op == "CEIL":
        return float(math.ceil(a[0]))
    if op == "COPYSIGN":
        return math.copysign(a[0], a[1])
    if op == "HYPOT":
        return math.hypot(a[0], a[1])
    if op == "ASSIGN":
        return a[0]
    raise NotImplementedError(op)
