"""Engine self-test: `./check selftest`.  Cross-checks the trusted parts of /verif against independent oracles
(sympy, mpmath, exact rational evaluation).  Exit 0 = all agree, 3 = the engine cannot be trusted."""
from __future__ import annotations

import math
import random
import sys
import time
from fractions import Fraction

import casadi as ca


def t_ring(rng):
    """quotient-ring normal forms vs sympy: (p*q) reduced modulo s^2 = 1 - c^2, r^2 = x^2 + y^2 + 1"""
    import sympy
    from .ring import Frac, Ring
    R = Ring()
    x, y, s, c, r = (R.gen(n) for n in "xyscr")
    R.add_relation(R.index["s"], 2, R.const(1) - c * c)
    R.add_relation(R.index["r"], 2, x * x + y * y + R.const(1))
    X, Y, S, C, RR = sympy.symbols("x y s c r")
    gens = {"x": (x, X), "y": (y, Y), "s": (s, S), "c": (c, C), "r": (r, RR)}
    n = 0
    for _ in range(60):
        def rand_poly():
            p, P = R.const(0), sympy.Integer(0)
            for _ in range(rng.randint(1, 4)):
                coef = Fraction(rng.randint(-5, 5), rng.randint(1, 4))
                t, T = R.const(coef), sympy.Rational(coef.numerator, coef.denominator)
                for k in rng.sample(list(gens), rng.randint(0, 3)):
                    e = rng.randint(1, 3)
                    t, T = t * gens[k][0] ** e, T * gens[k][1] ** e
                p, P = p + t, P + T
            return p, P
        (p, P), (q, Q) = rand_poly(), rand_poly()
        prod = p * q + p
        # evaluate both at a rational point satisfying the relations: c = (1-t^2)/(1+t^2), s = 2t/(1+t^2); r kept symbolic -> compare polynomials in r after substitution
        tt = Fraction(rng.randint(-3, 3), rng.randint(1, 3))
        cv, sv = (1 - tt * tt) / (1 + tt * tt), 2 * tt / (1 + tt * tt)
        xv, yv = Fraction(rng.randint(-3, 3), 2), Fraction(rng.randint(-3, 3), 3)
        ref = sympy.expand((P * Q + P).subs({X: sympy.Rational(xv.numerator, xv.denominator), Y: sympy.Rational(yv.numerator, yv.denominator),
                                             S: sympy.Rational(sv.numerator, sv.denominator), C: sympy.Rational(cv.numerator, cv.denominator)}))
        ref = sympy.rem(sympy.Poly(ref, RR), sympy.Poly(RR ** 2 - sympy.Rational((xv * xv + yv * yv + 1).numerator, (xv * xv + yv * yv + 1).denominator), RR)).as_expr()
        got = sympy.Integer(0)
        for m, coef in prod.t.items():
            term = sympy.Rational(coef.numerator, coef.denominator)
            for i, e in R._unpack(m):
                v = {"x": xv, "y": yv, "s": sv, "c": cv}.get(R.names[i])
                term = term * (RR ** e if v is None else sympy.Rational(v.numerator, v.denominator) ** e)
            got += term
        got = sympy.rem(sympy.Poly(sympy.expand(got), RR), sympy.Poly(RR ** 2 - sympy.Rational((xv * xv + yv * yv + 1).numerator, (xv * xv + yv * yv + 1).denominator), RR)).as_expr()
        assert sympy.simplify(got - ref) == 0, ("ring product mismatch", got, ref)
        # exact division
        if not q.is_zero():
            d = R.divexact(p.raw_mul(q), q)
            assert d is not None and (d - p).is_zero(), "divexact failed"
        n += 1
    # fractions: a/b + c/d - (ad + cb)/(bd) == 0
    a, b = Frac.of(R, x * x + y), Frac.of(R, y * y + R.const(1))
    z = a / b + b / a - (a * a + b * b) / (a * b)
    assert z.num.is_zero(), "fraction arithmetic"
    return n


def t_lower(rng):
    """SX -> IR -> ring value, evaluated exactly at a rational point, vs CasADi's numeric evaluation"""
    from . import ir
    from .lower import Lowerer
    from .ring import Frac, Ring
    n = 0
    for _ in range(40):
        x = ca.SX.sym("x", 3)
        e = x[0]
        for _ in range(rng.randint(2, 7)):
            k = rng.randint(0, 6)
            o = x[rng.randint(0, 2)] if rng.random() < 0.7 else ca.SX(rng.randint(1, 4))
            e = [e + o, e - o, e * o, e / (o * o + 1), e * e, -e, ca.sqrt(e * e + o * o + 1)][k]
        g, on, _ = ir.extract({"x": x}, {"e": e})
        R = Ring()
        low = Lowerer(g, R, {("x", i, 0): Frac.of(R, R.gen(f"x{i}")) for i in range(3)})
        v = low.value(on["e"][0][0])
        pt = [Fraction(rng.randint(-4, 4), rng.randint(1, 3)) for _ in range(3)]
        # numeric value of the ring expression (root atoms evaluated numerically)
        vals = {f"x{i}": float(pt[i]) for i in range(3)}
        for i, rad in sorted(R.root_def.items()):
            vals[R.names[i]] = math.sqrt(_peval(R, rad, vals))
        num = _peval(R, v.num, vals)
        den = 1.0
        for f, ex in v.den.items():
            den *= _peval(R, f, vals) ** ex
        ref = float(ca.Function("f", [x], [e])([float(p) for p in pt]))
        assert abs(num / den - ref) <= 1e-9 * (1 + abs(ref)), ("lowering mismatch", num / den, ref)
        n += 1
    return n


def _peval(R, p, vals):
    tot = 0.0
    for m, c in p.t.items():
        t = float(c)
        for i, e in R._unpack(m):
            t *= vals[R.names[i]] ** e
        tot += t
    return tot


def t_taylor(rng):
    """Taylor / Laurent forms: enclosure of sample values computed with mpmath"""
    import mpmath
    from .taylor import LF, TF, tf_atan, tf_cos, tf_sin
    mpmath.mp.dps = 50
    r = Fraction(1, 20)
    z = TF.var(16, r)
    forms = {
        "sin(z)/z": ((LF(tf_sin(z)) / LF(z)).to_tf(), lambda t: mpmath.sin(t) / t),
        "(1-cos z)/z^2": ((LF(1 - tf_cos(z)) / LF(z * z)).to_tf(), lambda t: (1 - mpmath.cos(t)) / t ** 2),
        "(4/z) atan z": ((LF(TF.const(16, r, 4)) / LF(z) * LF(tf_atan(z))).to_tf(), lambda t: 4 * mpmath.atan(t) / t),
        "z/sin z": ((LF(z) / LF(tf_sin(z))).to_tf(), lambda t: t / mpmath.sin(t)),
        "tan(z/4)/z": ((LF(tf_sin(z * Fraction(1, 4))) / LF(tf_cos(z * Fraction(1, 4))) / LF(z)).to_tf(), lambda t: mpmath.tan(t / 4) / t),
    }
    n = 0
    for name, (tf, f) in forms.items():
        for _ in range(10):
            t = mpmath.mpf(rng.uniform(-float(r), float(r))) or mpmath.mpf("1e-3")
            poly = sum(mpmath.mpf(c.numerator) / c.denominator * t ** i for i, c in enumerate(tf.c))
            rem = mpmath.mpf(tf.R.numerator) / tf.R.denominator * abs(t) ** (tf.N + 1)
            assert abs(poly - f(t)) <= rem + mpmath.mpf("1e-45"), (name, float(t), float(abs(poly - f(t))), float(rem))
            n += 1
    return n


def t_fperr(rng):
    """floating-point error bounds: |double result - 60-digit result| <= bound at random points of the box"""
    import mpmath
    from . import fperr, ir
    from .interval import IV
    mpmath.mp.dps = 60
    n = 0
    for _ in range(40):
        x = ca.SX.sym("x", 3)
        e = x[0] * 0.1 + 1.5
        for _ in range(rng.randint(3, 9)):
            k = rng.randint(0, 7)
            o = x[rng.randint(0, 2)] if rng.random() < 0.7 else ca.SX(rng.uniform(0.5, 3))
            e = [e + o, e - o * 0.3, e * o, e / (o * o + 1.25), e * e, ca.sin(e), ca.sqrt(e * e + 0.5), ca.cos(e) + o][k]
        g, on, _ = ir.extract({"x": x}, {"e": e})
        node = on["e"][0][0]
        lo = [rng.uniform(-1, 0.5) for _ in range(3)]
        box = {("x", i, 0): IV(lo[i], lo[i] + 0.4) for i in range(3)}
        memo = fperr.analyse(g, [node], box, {})
        val, err = memo[node]
        f = ca.Function("f", [x], [e])
        for _ in range(10):
            pt = [rng.uniform(lo[i], lo[i] + 0.4) for i in range(3)]
            dbl = float(f(pt))
            ref = _mp_eval(g, node, pt, mpmath)
            assert val.lo - 1e-12 <= float(ref) <= val.hi + 1e-12, ("enclosure", val, float(ref))
            assert abs(mpmath.mpf(dbl) - ref) <= err * (1 + 1e-9) + 1e-300, ("fp bound violated", float(abs(mpmath.mpf(dbl) - ref)), err)
            n += 1
    return n


def t_fperr_branches(rng):
    """undecided branches, clamps and inverse trig: |double result - 60-digit result| <= bound, with sample points placed on
    and next to the branch threshold (where the floating-point and the real decision can differ)"""
    import mpmath
    from . import fperr, ir
    from .interval import IV
    mpmath.mp.dps = 60
    n = 0
    for trial in range(30):
        x = ca.SX.sym("x", 2)
        c = rng.uniform(0.2, 0.8)
        u = x[0] * x[0] + 0.3 * x[1]
        a = ca.sin(u) / (1 + u * u) + (0.0 if trial % 2 else 1e-9)
        b = u - u ** 3 / 6 + 0.1 * x[1] * (u - c)
        kind = trial % 3
        if kind == 0:
            e = ca.if_else(u < c, a, b)
        elif kind == 1:
            e = ca.asin(ca.fmax(ca.fmin(u * 1.2, 1), -1)) + ca.atan2(x[1] + 2, x[0] + 1.5)
        else:
            e = ca.if_else(ca.fabs(u - c) < 1e-3, ca.SX(0.5) + u, ca.acos(ca.fmin(u, 1) * 0.9))
        g, on, _ = ir.extract({"x": x}, {"e": e})
        node = on["e"][0][0]
        box = {("x", 0, 0): IV(0.0, 1.0), ("x", 1, 0): IV(-0.5, 0.5)}
        guards = fperr.use_guards(g, [node])
        memo = fperr.analyse(g, [node], box, {}, None, None, guards)
        val, err = memo[node]
        assert math.isfinite(err), ("branch analysis gave no bound", trial)
        f = ca.Function("f", [x], [e])
        pts = [[rng.uniform(0, 1), rng.uniform(-0.5, 0.5)] for _ in range(6)]
        # points on the threshold u = c (solve for x0 given x1), perturbed by a few ulps
        for _ in range(6):
            x1 = rng.uniform(-0.5, 0.5)
            t = c - 0.3 * x1
            if t > 0:
                x0 = math.sqrt(t)
                for k in (-2, -1, 0, 1, 2):
                    pts.append([x0 * (1 + k * 2.0 ** -52), x1])
        for pt in pts:
            if not (0 <= pt[0] <= 1):
                continue
            dbl = float(f(pt))
            ref = _mp_eval(g, node, pt, mpmath)
            assert abs(mpmath.mpf(dbl) - ref) <= err * (1 + 1e-9) + 1e-300, ("fp bound violated at a branch", trial, pt, float(abs(mpmath.mpf(dbl) - ref)), err)
            n += 1
    return n


def _mp_eval(g, n, pt, mp):
    memo = {}

    def ev(k):
        if k in memo:
            return memo[k]
        op, args, payload = g.nodes[k]
        a = [ev(q) for q in args]
        if op == "INPUT":
            v = mp.mpf(pt[payload[1]])
        elif op == "CONST":
            v = mp.mpf(payload.numerator) / payload.denominator
        else:
            def pw():
                ex = a[1]
                return a[0] ** int(ex) if ex == int(ex) else a[0] ** ex
            v = {"ADD": lambda: a[0] + a[1], "SUB": lambda: a[0] - a[1], "MUL": lambda: a[0] * a[1], "DIV": lambda: a[0] / a[1], "SQ": lambda: a[0] ** 2,
                 "NEG": lambda: -a[0], "TWICE": lambda: 2 * a[0], "SIN": lambda: mp.sin(a[0]), "COS": lambda: mp.cos(a[0]), "SQRT": lambda: mp.sqrt(a[0]),
                 "INV": lambda: 1 / a[0], "ASIN": lambda: mp.asin(a[0]), "ACOS": lambda: mp.acos(a[0]), "ATAN": lambda: mp.atan(a[0]),
                 "ATAN2": lambda: mp.atan2(a[0], a[1]), "FMIN": lambda: min(a[0], a[1]), "FMAX": lambda: max(a[0], a[1]), "FABS": lambda: abs(a[0]),
                 "LT": lambda: mp.mpf(1 if a[0] < a[1] else 0), "LE": lambda: mp.mpf(1 if a[0] <= a[1] else 0), "NOT": lambda: mp.mpf(0 if a[0] != 0 else 1),
                 "IF_ELSE_ZERO": lambda: a[1] if a[0] != 0 else mp.mpf(0), "POW": pw, "CONSTPOW": pw}[op]()
        memo[k] = v
        return v

    return ev(n)


def t_tv(rng):
    """C translation validation refuses a tampered body and accepts the generator's own output"""
    import os
    import shutil
    import tempfile
    from . import tv_c
    x = ca.SX.sym("x", 3)
    f = ca.Function("demo", [x], [ca.vertcat(x[0] * x[1] - x[2], ca.if_else(x[0] < 1e-3, x[1], ca.sqrt(x[2] * x[2] + 1)))])
    root = os.path.join(os.path.dirname(os.path.dirname(os.path.abspath(__file__))), "scratch")
    os.makedirs(root, exist_ok=True)
    d = tempfile.mkdtemp(prefix="st_", dir=root)
    try:
        gen = ca.CodeGenerator("demo.c", {"with_header": False})
        gen.add(f)
        gen.generate(d + os.sep)
        text = open(os.path.join(d, "demo.c")).read()
        issues, n = tv_c.validate_function(tv_c.parse_c_file(text), f)
        assert not issues and n == 2, issues
        import re
        m = re.search(r"\((w\[\d+\]|a\d+)\*(w\[\d+\]|a\d+)\)", text)
        bad = text.replace(m.group(0), f"({m.group(1)}+{m.group(2)})", 1)
        issues, _ = tv_c.validate_function(tv_c.parse_c_file(bad), f)
        assert issues, "tampering not detected"
    finally:
        shutil.rmtree(d, ignore_errors=True)
    return 2


def main():
    rng = random.Random(int(__import__("os").environ.get("VERIF_SEED", "0") or 0))
    ok = True
    for name, fn in (("ring normal forms vs sympy", t_ring), ("lowering vs CasADi numeric", t_lower), ("Taylor/Laurent forms vs mpmath", t_taylor),
                     ("floating-point error bounds vs mpmath", t_fperr), ("floating-point bounds at branches / clamps / inverse trig", t_fperr_branches),
                     ("C translation validation", t_tv)):
        t0 = time.time()
        try:
            n = fn(rng)
            print(f"selftest ok   {name}: {n} cases ({time.time() - t0:.1f}s)")
        except Exception as e:
            ok = False
            import traceback
            print(f"selftest FAIL {name}: {type(e).__name__}: {e}")
            traceback.print_exc(limit=3)
    return 0 if ok else 3


if __name__ == "__main__":
    sys.exit(main())
