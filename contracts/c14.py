"""C14 — attitude set-points are proper rotations aligned with the demanded thrust and heading."""
from __future__ import annotations

import contextlib
import io
import math

import casadi as ca

from cyverif.harness import Ob, cells
from cyverif.harness import Trace as _Trace
from cyverif.sorts import Angle, Composite, Const, Free, Pos, UnitQuat
from . import spec

with contextlib.redirect_stdout(io.StringIO()):
    from cyecca.models import rdd2, rdd2_loglinear, bezier, mr_ref_traj
from cyecca.lie.group_so3 import SO3Quat, SO3QuatLieGroup, SO3EulerB321, SO3EulerLieGroup
from cyecca.lie.group_se23 import SE23LieAlgebra

POL = cells(series="closed", gimbal=None)


@contextlib.contextmanager
def capture_from_matrix(store, Y):
    """SO3Quat.from_Matrix replaced by its contract (C07.Quat.from_Matrix: for every rotation matrix R the result is a
    unit quaternion with to_Matrix = R): the stub records the argument and returns the opaque element Y[0:4].
    SO3EulerB321.from_Quat (camera yaw extraction) is likewise replaced by an opaque Euler triple Y[4:7]: the set-point
    claims hold for whatever yaw it returns (its own contract is C07.Euler.from_Quat)."""
    real = SO3QuatLieGroup.from_Matrix
    real2 = SO3EulerLieGroup.from_Quat

    def stub(self, arg):
        store.append(arg)
        return SO3Quat.elem(Y[0:4])

    def stub2(self, arg):
        return SO3EulerB321.elem(Y[4:7])

    SO3QuatLieGroup.from_Matrix = stub
    SO3EulerLieGroup.from_Quat = stub2
    try:
        yield
    finally:
        SO3QuatLieGroup.from_Matrix = real
        SO3EulerLieGroup.from_Quat = real2


@contextlib.contextmanager
def intercept_function():
    """records (inputs, outputs) of every ca.Function a derive_* routine builds instead of constructing it, so that
    expressions containing a stub's opaque result (a free symbol) can be re-wrapped with that symbol as an extra input"""
    real = ca.Function
    rec = {}

    class Dummy:
        """stands for a Function whose body contains a stub's opaque (free) symbol: calling it substitutes the arguments"""

        def __init__(self, name, ins, outs):
            self._n, self._ins, self._outs = name, list(ins), list(outs)

        def name(self):
            return self._n

        def __call__(self, *args):
            args = [ca.SX(a) if not isinstance(a, ca.SX) else a for a in args]
            args = [a if a.shape == i.shape else ca.SX(i.sparsity(), a) if a.is_scalar() else a for a, i in zip(args, self._ins)]
            res = ca.substitute(self._outs, self._ins, args)
            return res[0] if len(res) == 1 else res

    def Fake(name, ins, outs, *a, **k):
        rec[name] = (list(ins), list(outs))
        try:
            return real(name, ins, outs, *a, **k)
        except RuntimeError:  # free variables: the expression contains a stub's opaque symbol
            return Dummy(name, ins, outs)

    ca.Function = Fake
    try:
        yield rec
    finally:
        ca.Function = real


def derive_with_stub(derive, fname, stub_cm, Y, extra_outputs=()):
    """runs derive() with the stub installed; returns a real Function (inputs..., Y) -> (outputs..., captured args...)"""
    store = []
    with stub_cm(store, Y), intercept_function() as rec, contextlib.redirect_stdout(io.StringIO()):
        derive()
    ins, outs = rec[fname]
    return ca.Function("aux", ins + [Y], outs + store), len(outs), len(store)


def setpoint_obs(prefix=""):
    return [
        Ob("call site: the set-point quaternion is from_Matrix(Rd) returned unchanged", "q_out", "Y"),
        Ob("so3: Rd^T Rd = I", "RtR", "I3"),
        Ob("so3: det Rd = +1", "det", "one"),
        Ob("align: body z axis = demanded force / |force|  (zB * nT = T)", "zB_nT", "T"),
        Ob("align: |zB| = 1", "zB_sq", "one"),
        Ob("align: body y axis perpendicular to the heading direction xC", "yB_dot_xC", None),
        Ob("thrust magnitude: nT^2 = |T|^2", "nT_sq", "T_sq"), Ob("thrust magnitude: nT >= 0", "nT", "zero", kind="ge"),
    ]


def setpoint_outs(Rd, nT, Tvec, yaw_c, yaw_s, q_out, Y):
    zB, yB = Rd[:, 2], Rd[:, 1]
    xC = ca.vertcat(yaw_c, yaw_s, 0)
    return {"q_out": q_out, "Y": Y, "RtR": Rd.T @ Rd, "I3": spec.I(3), "det": ca.det(Rd), "one": ca.SX.ones(1, 1), "zB_nT": zB * nT, "T": Tvec,
            "zB_sq": ca.dot(zB, zB), "yB_dot_xC": ca.dot(yB, xC), "nT_sq": nT * nT, "T_sq": ca.dot(Tvec, Tvec), "nT": nT, "zero": ca.SX.zeros(1, 1)}


def nominal(low, n):
    """cell policy: the nominal branch (thrust norm > 1e-3 and |zB x xC| > 1e-3 decided True); the degenerate
    fallbacks are separate traces (no policy) where every path is explored"""
    from fractions import Fraction
    g = low.g
    op, args, _ = g.nodes[n]
    if op == "LT" and g.op(args[0]) == "CONST" and g.payload(args[0]) in (Fraction(1e-3), Fraction(1e-6)):
        return True
    return None


def cut_at_thrust(g, onodes):
    """the attitude set-point is a function of the demanded thrust vector T and the heading only: the three nodes T_i are
    read off the graph of nT = norm_2(T) = sqrt(T0^2 + T1^2 + T2^2) and lowered as free variables, so the so(3) obligations
    of the degenerate branches are proved for EVERY thrust vector (not only those the outer loop can produce)"""
    n = onodes["nT"][0][0]
    if n is None or g.op(n) != "SQRT":
        return {}
    leaves, stack = [], [g.args(n)[0]]
    while stack:
        k = stack.pop()
        if g.op(k) == "ADD":
            stack.extend(g.args(k))
        else:
            leaves.append(k)
    comps = []
    for k in leaves:
        if g.op(k) == "SQ":
            comps.append(g.args(k)[0])
        elif g.op(k) == "MUL" and g.args(k)[0] == g.args(k)[1]:
            comps.append(g.args(k)[0])
        else:
            return {}
    if len(comps) != 3:
        return {}
    return {c: f"Tcut{i}" for i, c in enumerate(sorted(comps))}


def cut_at_first_norm3(g, onodes):
    """same idea for mr_ref_traj / f_ref, whose thrust magnitude output is clamped: the FIRST norm of a 3-vector built in
    the graph is |m (g e3 - a)|; its three components are lowered as free variables (any cut is sound: the obligations are
    then proved for arbitrary values of the cut nodes, a stronger statement)"""
    for n, (op, args, _) in enumerate(g.nodes):
        if op != "SQRT":
            continue
        leaves, stack = [], [args[0]]
        while stack:
            k = stack.pop()
            if g.op(k) == "ADD":
                stack.extend(g.args(k))
            else:
                leaves.append(k)
        comps = [g.args(k)[0] for k in leaves if g.op(k) == "SQ" or (g.op(k) == "MUL" and g.args(k)[0] == g.args(k)[1])]
        if len(comps) == 3 and len(leaves) == 3 and all(g.op(c) not in ("INPUT", "CONST") for c in comps):
            return {c: f"Fcut{i}" for i, c in enumerate(sorted(comps))}
    return {}


def position_control_traces():
    f = rdd2.derive_position_control  # re-derived inside build with the stub active

    def b(thrust_trim, pt_w, vt_w, at_w, qc_wb, p_w, v_w, z_i, dt, Y):
        Yi = ca.SX.sym("Yi", 7)
        aux, n_out, n_cap = derive_with_stub(f, "position_control", capture_from_matrix, Yi)
        assert n_cap == 1, f"from_Matrix called {n_cap} times"
        nT, q_out, z_i_2, Rd = aux(thrust_trim, pt_w, vt_w, at_w, qc_wb, p_w, v_w, z_i, dt, Y)
        # spec of the demanded force and heading (independent of the code)
        e_p, e_v = p_w - pt_w, v_w - vt_w
        p_term = -rdd2.kp_pos * e_p - rdd2.kp_vel * e_v + rdd2.m * at_w
        pn = ca.sqrt(ca.dot(p_term, p_term))
        p_lim = 0.3 * rdd2.m * rdd2.g
        p_sat = ca.if_else(pn > p_lim, p_lim * p_term / pn, p_term)
        Tvec = p_sat + ca.vertcat(0, 0, thrust_trim + rdd2.ki_z * z_i)
        out = setpoint_outs(Rd, nT, Tvec, ca.cos(Y[4]), ca.sin(Y[4]), q_out, Y[0:4])
        out.update({"p_sat_sq": ca.dot(p_sat, p_sat), "p_lim_sq": ca.SX(p_lim * p_lim), "z_i_2": z_i_2, "z_lim": ca.SX(rdd2.z_integral_max)})
        return out

    ins = [Free("thrust_trim", 1), Free("pt_w", 3), Free("vt_w", 3), Free("at_w", 3), UnitQuat("qc_wb"), Free("p_w", 3), Free("v_w", 3), Free("z_i", 1),
           Free("dt", 1), Composite("Y", [Free("Yq", 4), Angle("Yyaw"), Free("Ypr", 2)])]
    fns = [rdd2.derive_position_control]
    lem = ["callee-contract C07.Quat.from_Matrix"]
    T = [_Trace("C14.position_control.nominal", ins, b, setpoint_obs(), functions=fns, decide=nominal, lemmas=lem, budget_s=600, max_paths=256,
                note="from_Matrix by contract; heading xC = normalised projection of the camera x axis (yaw of qc_wb outside the gimbal band)")]
    # degenerate branches: every path explored; thrust parallel to heading is the expected finding
    cand = {"thrust_trim": [[0.0]], "pt_w": [[0.0]] * 3, "vt_w": [[0.0]] * 3, "at_w": [[1.0 / rdd2.m], [0.0], [0.0]], "qc_wb": [[1.0], [0.0], [0.0], [0.0]],
            "p_w": [[0.0]] * 3, "v_w": [[0.0]] * 3, "z_i": [[0.0]], "dt": [[0.01]], "Y": [[1.0], [0.0], [0.0], [0.0], [0.0], [0.0], [0.0]]}
    cand2 = dict(cand, at_w=[[0.0], [0.0], [0.0]])
    cand3 = dict(cand, at_w=[[100.0], [0.0], [0.0]])
    T.append(_Trace("C14.position_control.degenerate", ins, b, setpoint_obs()[1:3], functions=fns, decide=None, lemmas=lem, budget_s=900, max_paths=512,
                    witness_candidates=[cand, cand2, cand3], cut=cut_at_thrust, smt_timeout=120,
                    note="all branches incl. near-zero thrust and thrust parallel to the heading (documented fallbacks)"))
    return T


def se23_position_control_traces():
    """same construction in the log-linear outer loop; the SE_2(3) left Jacobian (gain shaping of zeta) is replaced by an
    opaque 9x9 matrix: the set-point claims hold for whatever feedback term it produces."""
    @contextlib.contextmanager
    def stubs(store, Y):
        real_lj = SE23LieAlgebra.left_jacobian

        def lj(self, arg):
            return ca.reshape(Y[7:88], 9, 9)

        SE23LieAlgebra.left_jacobian = lj
        try:
            with capture_from_matrix(store, Y):
                yield
        finally:
            SE23LieAlgebra.left_jacobian = real_lj

    def b(thrust_trim, kp, zeta, at_w, qc_wb, z_i, dt, Y):
        Yi = ca.SX.sym("Yi", 88)
        aux, n_out, n_cap = derive_with_stub(rdd2_loglinear.derive_outerloop_control, "se23_position_control", stubs, Yi)
        assert n_cap == 1
        nT, q_out, z_i_2, Rd = aux(thrust_trim, kp, zeta, at_w, qc_wb.param if hasattr(qc_wb, "param") else qc_wb, z_i, dt, Y)
        Jl = ca.reshape(Y[7:88], 9, 9)
        K = ca.diag(ca.vertcat(*([rdd2_loglinear.kp_pos] * 3 + [rdd2_loglinear.kp_vel] * 3), kp))
        uz = Jl @ K @ zeta
        p_term = uz[0:3] + uz[3:6] + rdd2_loglinear.m * at_w
        pn = ca.sqrt(ca.dot(p_term, p_term))
        p_lim = 0.3 * rdd2_loglinear.m * rdd2_loglinear.g
        p_sat = ca.if_else(pn > p_lim, p_lim * p_term / pn, p_term)
        Tvec = p_sat + ca.vertcat(0, 0, thrust_trim + rdd2_loglinear.ki_z * z_i)
        return setpoint_outs(Rd, nT, Tvec, ca.cos(Y[4]), ca.sin(Y[4]), q_out, Y[0:4])

    ins = [Free("thrust_trim", 1), Free("kp", 3), Free("zeta", 9), Free("at_w", 3), UnitQuat("qc_wb"), Free("z_i", 1), Free("dt", 1),
           Composite("Y", [Free("Yq", 4), Angle("Yyaw"), Free("Ypr", 2), Const("YJ", [[1 if (k // 9) == (k % 9) else 0] for k in range(81)])])]
    fns = [rdd2_loglinear.derive_outerloop_control]
    lem = ["callee-contract C07.Quat.from_Matrix"]
    z9 = [[0.0]] * 9
    cand = {"thrust_trim": [[0.0]], "kp": [[1.0]] * 3, "zeta": z9, "at_w": [[1.0], [0.0], [0.0]], "qc_wb": [[1.0], [0.0], [0.0], [0.0]], "z_i": [[0.0]], "dt": [[0.01]],
            "Y": [[1.0], [0.0], [0.0], [0.0], [0.0], [0.0], [0.0]] + [[1.0 if (k // 9) == (k % 9) else 0.0] for k in range(81)]}
    cand3 = dict(cand, at_w=[[100.0], [0.0], [0.0]])
    return [
        _Trace("C14.se23_position_control.nominal", ins, b, setpoint_obs(), functions=fns, decide=nominal, lemmas=lem, budget_s=600, max_paths=256),
        _Trace("C14.se23_position_control.degenerate", ins, b, setpoint_obs()[1:3], functions=fns, decide=None, lemmas=lem, budget_s=900, max_paths=512,
               witness_candidates=[cand, cand3], cut=cut_at_thrust, smt_timeout=120),
    ]


def mr_ref_traces(tier):
    def b(psi, psi_dot, psi_ddot, v_e, a_e, j_e, s_e, m, g, J_x, J_y, J_z, J_xz):
        with contextlib.redirect_stdout(io.StringIO()):
            fn = mr_ref_traj.derive_mr_ref_traj()["mr_ref_traj"]
        v_b, C_be, w, wd, M_b, T = fn(psi, psi_dot, psi_ddot, v_e, a_e, j_e, s_e, m, g, J_x, J_y, J_z, J_xz)
        J = ca.SX.zeros(3, 3)
        J[0, 0], J[1, 1], J[2, 2], J[0, 2], J[2, 0] = J_x, J_y, J_z, J_xz, J_xz
        F = m * (g * ca.vertcat(0, 0, 1) - a_e)
        zb = C_be[:, 2]
        dzb = ca.jtimes(zb, a_e, j_e)  # time derivative of the thrust axis along the trajectory (a' = j)
        out = {"RtR": C_be.T @ C_be, "I3": spec.I(3), "det": ca.det(C_be), "one": ca.SX.ones(1, 1), "zB_T": zb * T, "F": F,
               "yB_dot_xC": ca.dot(C_be[:, 1], ca.vertcat(ca.cos(psi), ca.sin(psi), 0)), "T_sq": T * T, "F_sq": ca.dot(F, F), "T": T, "zero": ca.SX.zeros(1, 1),
               "dzb": dzb, "rate_spec": w[1] * C_be[:, 0] - w[0] * C_be[:, 1],
               "M_b": M_b, "euler_spec": J @ wd + ca.cross(w, J @ w), "v_b": v_b, "v_b_spec": C_be.T @ v_e}
        return out

    ins = [Angle("psi"), Free("psi_dot", 1), Free("psi_ddot", 1), Free("v_e", 3), Free("a_e", 3), Free("j_e", 3), Free("s_e", 3), Pos("m"), Pos("g"),
           Pos("J_x"), Pos("J_y"), Pos("J_z"), Free("J_xz", 1)]
    obs = [Ob("so3: C^T C = I", "RtR", "I3"), Ob("so3: det C = +1", "det", "one"),
           Ob("align: z_b * T = m (g e3 - a)", "zB_T", "F"), Ob("align: y_b perpendicular to heading", "yB_dot_xC", None),
           Ob("thrust magnitude: T^2 = |m (g e3 - a)|^2", "T_sq", "F_sq"), Ob("thrust magnitude: T >= 0", "T", "zero", kind="ge"),
           Ob("rates: d/dt z_b = q x_b - p y_b  (roll/pitch rates = rotation rate of the thrust axis)", "dzb", "rate_spec"),
           Ob("Euler's equation: M_b = J w' + w x J w", "M_b", "euler_spec"), Ob("v_b = C^T v_e", "v_b", "v_b_spec")]
    def cand(a):
        return {"psi": [[0.0]], "psi_dot": [[0.1]], "psi_ddot": [[0.0]], "v_e": [[0.0]] * 3, "a_e": a, "j_e": [[0.1], [0.2], [0.3]], "s_e": [[0.0]] * 3,
                "m": [[2.0]], "g": [[9.8]], "J_x": [[0.02]], "J_y": [[0.02]], "J_z": [[0.04]], "J_xz": [[0.0]]}

    def b_fref(psi, psi_dot, psi_ddot, v_e, a_e, j_e, s_e):
        with contextlib.redirect_stdout(io.StringIO()):
            fr = bezier.derive_ref()["f_ref"]
            fm = mr_ref_traj.derive_mr_ref_traj()["mr_ref_traj"]
        v_b, quat, w, wd, M_b, T = fr(psi, psi_dot, psi_ddot, v_e, a_e, j_e, s_e)
        v_b2, C_be, w2, wd2, M_b2, T2 = fm(psi, psi_dot, psi_ddot, v_e, a_e, j_e, s_e, bezier.m, bezier.g, bezier.J_xx, bezier.J_yy, bezier.J_zz, bezier.J_xz)
        return {"a": ca.vertcat(v_b, w, wd, M_b, T), "b": ca.vertcat(v_b2, w2, wd2, M_b2, T2), "Mq": spec.R_quat(quat), "C": C_be,
                "qn": ca.dot(quat, quat), "one": ca.SX.ones(1, 1)}

    ins7 = ins[:7]
    return [_Trace("C14.mr_ref_traj.nominal", ins, b, obs, functions=[mr_ref_traj.derive_mr_ref_traj], decide=nominal_ref, budget_s=900, max_paths=256,
                   note="nominal branch: T > tol, |z_b x x_c| > tol, pitch outside the +-pi/2 band, |cos phi| > tol"),
            _Trace("C14.mr_ref_traj.degenerate", ins, b, obs[:2], functions=[mr_ref_traj.derive_mr_ref_traj], decide=None, budget_s=900, max_paths=512,
                   witness_candidates=[cand([[-5.0], [0.0], [9.8]]), cand([[0.0], [0.0], [9.8]]), cand([[0.0], [-2.5e-7], [9.8]])], cut=cut_at_first_norm3, smt_timeout=120,
                   note="all branches incl. zero thrust and thrust parallel to the heading"),
            _Trace("C14.f_ref.agrees-with-mr_ref_traj", ins7, b_fref,
                   [Ob("f_ref outputs (v_b, omega, omega_dot, M_b, T) = mr_ref_traj outputs at its constants", "a", "b"),
                    Ob("f_ref quaternion has the rotation matrix C_be of mr_ref_traj", "Mq", "C"), Ob("f_ref quaternion is unit", "qn", "one")],
                   functions=[bezier.derive_ref, mr_ref_traj.derive_mr_ref_traj], decide=nominal_ref, budget_s=900, max_paths=256)]


def nominal_ref(low, n):
    """nominal branch of the flatness maps: `X > tol` tests True, the pitch-band test `fabs(fabs(theta) - pi/2) < tol` False"""
    from fractions import Fraction
    g = low.g
    op, args, _ = g.nodes[n]
    if op == "LT":
        if g.op(args[0]) == "CONST" and g.payload(args[0]) == Fraction(1e-6):
            return True
        if g.op(args[1]) == "CONST" and g.payload(args[1]) == Fraction(1e-6):
            return False
    return None


def wiring_traces():
    """helpers whose set-point is SO3Quat.from_Euler(...) / from_Matrix: the callee contract (C07: unit quaternion with the
    same rotation) carries the claim; obligation: the callee's result is returned unchanged."""
    T = []

    @contextlib.contextmanager
    def stub_from_euler(store, Y):
        real = SO3QuatLieGroup.from_Euler

        def stub(self, arg):
            store.append(arg.param)
            return SO3Quat.elem(Y)

        SO3QuatLieGroup.from_Euler = stub
        try:
            yield
        finally:
            SO3QuatLieGroup.from_Euler = real

    def b_auto(thrust_trim, thrust_delta, input_aetr, q, Y):
        Yi = ca.SX.sym("Yi", 4)
        aux, n_out, n_cap = derive_with_stub(rdd2.derive_input_auto_level, "input_auto_level", stub_from_euler, Yi)
        res = aux(thrust_trim, thrust_delta, input_aetr, q, Y)
        q_r, thrust = res[0], res[1]
        return {"q_r": q_r, "Y": Y, "thrust": thrust, "thrust_spec": input_aetr[2] * thrust_delta + thrust_trim, "n": ca.SX(n_cap), "one": ca.SX.ones(1, 1)}

    T.append(_Trace("C14.input_auto_level.wiring", [Free("thrust_trim", 1), Free("thrust_delta", 1), Free("input_aetr", 4), UnitQuat("q"), Free("Y", 4)], b_auto,
                    [Ob("q_r is SO3Quat.from_Euler(...) returned unchanged", "q_r", "Y"), Ob("from_Euler called exactly once", "n", "one"),
                     Ob("thrust = stick * delta + trim", "thrust", "thrust_spec")],
                    functions=[rdd2.derive_input_auto_level], lemmas=["callee-contract C07.Quat.from_Euler"], definedness=False))

    def b_vel(dt, psi_sp, pw_sp, pw, input_aetr, reset_position, Y):
        Yi = ca.SX.sym("Yi", 4)
        aux, n_out, n_cap = derive_with_stub(rdd2.derive_input_velocity, "input_velocity", stub_from_euler, Yi)
        out = aux(dt, psi_sp, pw_sp, pw, input_aetr, reset_position, Y)
        return {"q_sp": out[5], "Y": Y, "n": ca.SX(n_cap), "one": ca.SX.ones(1, 1)}

    T.append(_Trace("C14.input_velocity.wiring", [Free("dt", 1), Free("psi_sp", 1), Free("pw_sp", 3), Free("pw", 3), Free("input_aetr", 4), Free("reset_position", 1),
                                                  Free("Y", 4)], b_vel,
                    [Ob("q_sp is SO3Quat.from_Euler(...) returned unchanged", "q_sp", "Y"), Ob("from_Euler called exactly once", "n", "one")],
                    functions=[rdd2.derive_input_velocity], lemmas=["callee-contract C07.Quat.from_Euler"], definedness=False))

    # eulerB321_to_quat: direct (the real from_Euler), unit norm + same rotation
    from cyverif.sorts import Angles

    def b_e2q(e):
        with contextlib.redirect_stdout(io.StringIO()):
            fn = bezier.derive_eulerB321_to_quat()["eulerB321_to_quat"]
        q = fn(e[0], e[1], e[2])
        return {"norm": ca.dot(q, q), "one": ca.SX.ones(1, 1), "M": spec.R_quat(q), "M_spec": spec.R_euler_b321(e)}

    T.append(_Trace("C14.eulerB321_to_quat", [Angles("e", 3, ranges=[(-3, 3), (-1.4, 1.4), (-3, 3)])], b_e2q,
                    [Ob("unit quaternion", "norm", "one"), Ob("same rotation as the Euler triple", "M", "M_spec")],
                    functions=[bezier.derive_eulerB321_to_quat], decide=cells(series="closed", gimbal="outside"), budget_s=600))
    return T


def traces(tier="quick"):
    return position_control_traces() + se23_position_control_traces() + mr_ref_traces(tier) + wiring_traces()


def canaries(tier="quick"):
    t = mr_ref_traces(tier)[0]
    return [_Trace("C14.canary.mr_ref_traj.left-handed", t.inputs, t.build, [Ob("det C = -1 [false]", "det", "zero")], decide=nominal_ref, max_paths=256)]


MIN_OBLIGATIONS = {"quick": 20, "thorough": 20}
TRUSTED = ["A-GRAPH, A-REAL, own ring engine (see C01)", "CasADi forward AD (time derivative of the thrust axis along a' = j)"]
ASSUMPTIONS = ["se23_position_control: the SE_2(3) left-Jacobian gain shaping is fixed to the identity in these traces; the feedback term is still an arbitrary vector because the feed-forward acceleration at_w is free (the set-point depends on them only through their sum)",
               "SO3Quat.from_Matrix / from_Euler are used by contract at the call sites (their contracts are C07's obligations)",
               "nominal-branch traces decide the norm/tolerance tests True (requires thrust and |z_b x x_c| above the code's thresholds)"]
