"""Real-arithmetic error of the consumers of the small-angle series ON THE TAYLOR CELL (rigorous).

For a consumer Out = G(c_1(arg_1(w)), ..., c_m(arg_m(w)), w), where the c_j are SERIES / SQUARED_SERIES entries, the code
evaluates G with c_j = T_j (Taylor polynomial) when |arg_j| < 1e-3, while the exact function is G with c_j = f_j (the
analytic continuation of the closed form; G(f, w) is the exact mathematical function by the closed-cell identities of
C02/C04/C05/C08 and continuity).  By the mean value theorem
        |Out_code - Out_exact|  <=  sum_j  sup_box |dG/dc_j| * eps_j,
eps_j = rigorous truncation bound of entry j (C06, Taylor forms), sup taken by interval arithmetic over a box that contains
the whole Taylor cell (rotation components up to 0.07, other inputs in [-1, 1], c_j in an enclosure of f_j's range).
The series tables are replaced IN PLACE by symbol-returning stubs for the duration of one trace (callee contract = C06)."""
from __future__ import annotations

import contextlib
import math
import time
import traceback
from fractions import Fraction

import casadi as ca

from cyverif import ir
from cyverif.harness import ERROR, PROVED, REFUTED, UNDECIDED, Result
from cyverif.interval import IV, eval_iv
from cyverif.taylor import TF, TaylorError
from cyecca import symbolic
from cyecca.symbolic import SERIES, SQUARED_SERIES

ROT_BOX = 0.07
TARGET = 1e-11


@contextlib.contextmanager
def stub_series(calls):
    saved = (dict(SERIES), dict(SQUARED_SERIES))

    def mk(table, key):
        def f(arg):
            s = ca.SX.sym(f"c{len(calls)}")
            calls.append((table, key, ca.SX(arg), s))
            return s
        return f

    for k in list(SERIES):
        SERIES[k] = mk("SERIES", k)
    for k in list(SQUARED_SERIES):
        SQUARED_SERIES[k] = mk("SQUARED_SERIES", k)
    try:
        yield
    finally:
        SERIES.clear()
        SERIES.update(saved[0])
        SQUARED_SERIES.clear()
        SQUARED_SERIES.update(saved[1])


@contextlib.contextmanager
def record_series(calls):
    """like stub_series but the real entry is called: records (table, key, argument, real result) per call site"""
    saved = (dict(SERIES), dict(SQUARED_SERIES))

    def mk(table, key, F):
        def f(arg):
            res = F(arg)
            calls.append((table, key, ca.SX(arg), ca.SX(res)))
            return res
        return f

    for k in list(SERIES):
        SERIES[k] = mk("SERIES", k, saved[0][k])
    for k in list(SQUARED_SERIES):
        SQUARED_SERIES[k] = mk("SQUARED_SERIES", k, saved[1][k])
    try:
        yield
    finally:
        SERIES.clear()
        SERIES.update(saved[0])
        SQUARED_SERIES.clear()
        SQUARED_SERIES.update(saved[1])


_entry_cache = {}


def entry_bounds(table, key, a_max):
    """(eps: truncation bound on the cell, M: bound of |f| for |arg| <= a_max) from the real entry's two branches"""
    from .c06 import entry_graph, split_branches, tf_eval, N_ORDER, EPS
    squared = table == "SQUARED_SERIES"
    F = (SQUARED_SERIES if squared else SERIES)[key]
    ck = (table, key)
    if ck not in _entry_cache:
        g, n = entry_graph(F)
        br = split_branches(g, n)
        if br is None:
            raise TaylorError(f"entry {key}: unexpected structure")
        c, T, C = br
        r = Fraction(math.isqrt(10 ** 13) + 1, 10 ** 8) if squared else EPS
        z = TF.var(N_ORDER, r)
        d = tf_eval(g, T, z, squared) - tf_eval(g, C, z, squared)
        _entry_cache[ck] = (g, T, C, float(d.maxabs()) * (1 + 1e-12))
    g, T, C, eps = _entry_cache[ck]
    rr = math.sqrt(a_max) if squared else a_max
    rr = max(rr, 1e-3) * (1 + 1e-9)
    z = TF.var(N_ORDER, Fraction(rr).limit_denominator(10 ** 9) + Fraction(1, 10 ** 9))
    M = float(tf_eval(g, C, z, squared).maxabs()) * (1 + 1e-12)
    return eps, M


class TaylorCellJob:
    def __init__(self, id, n_in, rot, build, functions=(), other_box=1.0, rot_box=ROT_BOX, box=None):
        self.id, self.n_in, self.rot, self.build = id, n_in, rot, build
        self.functions = list(functions)
        self.other_box, self.rot_box = other_box, rot_box
        self.box = box  # optional explicit per-input intervals {index: (lo, hi)}
        self.lemmas = ["callee-contract C06 truncation bounds", "L-TAYLOR"]
        self.assumptions = ["'exact' = the consumer's formula with the analytically continued coefficient functions; that this is the exact mathematical function is the closed-cell identity of C02/C04/C05/C08 extended by continuity"]

    def run(self, seed=0):
        t0 = time.time()
        try:
            w = ca.SX.sym("w", self.n_in)
            calls = []
            with stub_series(calls):
                out = ca.vec(ca.SX(self.build(w)))
            sub = getattr(self.build, "subst", None)
            if sub is not None:
                calls = [(t, k, ca.substitute([a], sub[0], sub[1])[0], sy) for t, k, a, sy in calls]
            if not calls:
                return [Result(self.id, "consumes at least one series coefficient", REFUTED, "INT", "", 0.0, "no series entry is referenced", {"inputs": {}}, 1)]
            c = ca.vertcat(*[s for _, _, _, s in calls])
            J = ca.jacobian(out, c)
            ins = {"w": w, "c": c}
            outs = {"J": J, "args": ca.vertcat(*[a for _, _, a, _ in calls])}
            g, on, n_instr = ir.extract(ins, outs)
            a, b = self.rot
            env = {}
            for i in range(self.n_in):
                env[("w", i, 0)] = IV(-self.rot_box, self.rot_box) if a <= i < b else IV(-self.other_box, self.other_box)
                if self.box and i in self.box:
                    env[("w", i, 0)] = IV(*self.box[i])
            # range of every series argument over the box (independent of c)
            for j in range(len(calls)):
                env[("c", j, 0)] = IV(0.0)
            arg_nodes = [row[0] for row in on["args"]]
            amemo = eval_iv(g, arg_nodes, env)
            eps, detail = [], []
            for j, (table, key, arg, s) in enumerate(calls):
                av = amemo[arg_nodes[j]] if arg_nodes[j] is not None else IV(0.0)
                a_max = av.mag()
                if not math.isfinite(a_max):
                    raise TaylorError(f"argument of {key} unbounded on the box")
                e, M = entry_bounds(table, key, a_max)
                eps.append(e)
                env[("c", j, 0)] = IV(-(M + e), M + e)
                detail.append(f"{table}[{key}] arg<= {a_max:.3g} eps={e:.2e}")
            jn = [n for row in on["J"] for n in row if n is not None]
            memo = eval_iv(g, jn, env)
            worst = 0.0
            for i, row in enumerate(on["J"]):
                tot = 0.0
                for j, n in enumerate(row):
                    if n is None:
                        continue
                    m = memo[n].mag()
                    tot += m * eps[j]
                worst = max(worst, tot)
            ok = math.isfinite(worst) and worst <= TARGET
            st = PROVED if ok else (UNDECIDED if not math.isfinite(worst) else REFUTED)
            return [Result(self.id, f"Taylor cell: |code - exact| <= {TARGET:g} in real arithmetic for rotation components <= {self.rot_box} and other inputs in [-{self.other_box}, {self.other_box}]",
                           st, "INT", "", time.time() - t0,
                           f"rigorous bound {worst:.3e} = max_i sum_j sup|dOut_i/dc_j| eps_j over the box; {len(calls)} coefficient call sites ({'; '.join(detail[:4])}...); {n_instr} instructions",
                           None if st != REFUTED else {"inputs": {"bound": worst}}, out.shape[0])]
        except TaylorError as e:
            return [Result(self.id, "Taylor cell bound", UNDECIDED, "INT", "", time.time() - t0, f"{e}")]
        except Exception as e:
            return [Result(self.id, "Taylor cell bound", ERROR, "INT", "", time.time() - t0, f"{type(e).__name__}: {e}\n{traceback.format_exc(limit=5)}")]

    def replay(self, w):
        r = self.run()[0]
        return r.status == REFUTED, r.detail


def lie_consumers():
    from cyecca.lie.group_so3 import so3, SO3Quat, SO3Mrp, SO3Dcm
    from cyecca.lie.group_se3 import se3, SE3Quat, SE3Mrp
    from cyecca.lie.group_se23 import se23, SE23Quat, SE23Mrp
    from cyecca.lie.group_se2 import se2, SE2
    C = {
        "so3.left_jacobian": (3, (0, 3), lambda w: so3.elem(w).left_jacobian()),
        "so3.left_jacobian_inv": (3, (0, 3), lambda w: so3.elem(w).left_jacobian_inv()),
        "so3.right_jacobian": (3, (0, 3), lambda w: so3.elem(w).right_jacobian()),
        "so3.right_jacobian_inv": (3, (0, 3), lambda w: so3.elem(w).right_jacobian_inv()),
        "SO3Quat.exp": (3, (0, 3), lambda w: so3.elem(w).exp(SO3Quat).param),
        "SO3Mrp.exp": (3, (0, 3), lambda w: so3.elem(w).exp(SO3Mrp).param),
        "SO3Dcm.exp": (3, (0, 3), lambda w: so3.elem(w).exp(SO3Dcm).param),
        "se3.left_Q": (6, (3, 6), lambda w: se3.elem(w).left_Q()),
        "se3.left_jacobian": (6, (3, 6), lambda w: se3.elem(w).left_jacobian()),
        "se3.right_jacobian": (6, (3, 6), lambda w: se3.elem(w).right_jacobian()),
        "se3.left_jacobian_inv": (6, (3, 6), lambda w: se3.elem(w).left_jacobian_inv()),
        "se3.right_jacobian_inv": (6, (3, 6), lambda w: se3.elem(w).right_jacobian_inv()),
        "SE3Quat.exp": (6, (3, 6), lambda w: se3.elem(w).exp(SE3Quat).param),
        "SE3Mrp.exp": (6, (3, 6), lambda w: se3.elem(w).exp(SE3Mrp).param),
        "SE3Quat.Ad(exp)": (6, (3, 6), lambda w: se3.elem(w).exp(SE3Quat).Ad()),
        "se23.left_jacobian": (9, (6, 9), lambda w: se23.elem(w).left_jacobian()),
        "se23.right_jacobian": (9, (6, 9), lambda w: se23.elem(w).right_jacobian()),
        "se23.left_jacobian_inv": (9, (6, 9), lambda w: se23.elem(w).left_jacobian_inv()),
        "SE23Quat.exp": (9, (6, 9), lambda w: se23.elem(w).exp(SE23Quat).to_Matrix()),
        "SE23Mrp.exp": (9, (6, 9), lambda w: se23.elem(w).exp(SE23Mrp).to_Matrix()),
        "SE2.exp": (3, (2, 3), lambda w: se2.elem(w).exp(SE2).param),
    }
    return C


def strapdown_job(prefix):
    """strapdown INS step on its Taylor cell: |w_i| <= 3.5 rad/s, 0 <= dt <= 20 ms (|w| dt <= 0.122), |a| <= 20, g <= 10,
    |p|, |v| <= 10, quaternion entries in [-1, 1]"""
    import io
    with contextlib.redirect_stdout(io.StringIO()):
        from cyecca.models import rdd2

    def build(w):
        from .c14 import intercept_function
        with intercept_function() as rec, contextlib.redirect_stdout(io.StringIO()):
            rdd2.derive_strapdown_ins_propagation()
        ins, outs = rec["strapdown_ins_propagate"]
        repl = [w[0:10], w[10:13], w[13:16], w[16], w[17]]
        build.subst = (ins, repl)  # the series arguments were recorded in the routine's own symbols
        return ca.substitute([outs[0]], ins, repl)[0]

    box = {i: (-10.0, 10.0) for i in range(6)}
    box.update({i: (-1.0, 1.0) for i in range(6, 10)})
    box.update({i: (-20.0, 20.0) for i in range(10, 13)})
    box.update({i: (-3.5, 3.5) for i in range(13, 16)})
    box[16] = (0.0, 10.0)
    box[17] = (0.0, 0.02)
    j = TaylorCellJob(f"{prefix}.taylor-cell[strapdown_ins_propagate]", 18, (13, 16), build, functions=[rdd2.derive_strapdown_ins_propagation], box=box)
    return j


def jobs_for(names, prefix):
    C = lie_consumers()
    out = []
    for n in names:
        n_in, rot, build = C[n]
        out.append(TaylorCellJob(f"{prefix}.taylor-cell[{n}]", n_in, rot, build, functions=[symbolic.taylor_series_near_zero], rot_box=(0.002 if n == "SE2.exp" else ROT_BOX)))
    return out
