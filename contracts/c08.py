"""C08 — strapdown INS propagation on SE_2(3) is the exact flow of p' = v, v' = R a - g e3, R' = R [w]x.

x(dt) := strapdown_ins_propagate(x0, a_b, w_b, g, dt).  Obligations (closed-form cell |w| dt >= ~0.03):
  flow : d/d(dt) x(dt) = F(x(dt))    (derivative in dt at fixed inputs; F the IMU kinematics)
  init : x(0) = x0                    (exact evaluation through the Taylor branches)
  => x(dt) is the exact solution (uniqueness, lemma L-ODE); hence the semigroup law and dt = 0 identity.
  comp : step(step(x0, t1), t2) = step(x0, t1 + t2)   also stated directly;   norm : |q(dt)| = 1.
The trace binds w_b = y/dt with y a rotation-vector sort, so that the code's own w_b*dt cancels exactly."""
from __future__ import annotations

import contextlib
import io

import casadi as ca

from cyverif.harness import Ob, cells
from cyverif.harness import Trace as _Trace
from cyverif.ring import Frac
from cyverif.sorts import Angle, Composite, Const, Expr, Free, Pos, RotVec, UnitQuat
from . import spec
from .c02 import UnitVec

with contextlib.redirect_stdout(io.StringIO()):
    from cyecca.models import rdd2
from cyecca.lie.group_se23 import SE23LieGroup

CLOSED = cells(series="closed")
TAYLOR = cells(series="taylor")


def f_ins():
    return rdd2.derive_strapdown_ins_propagation()["strapdown_ins_propagate"]


def qmul(a, b):
    return ca.vertcat(a[0] * b[0] - a[1] * b[1] - a[2] * b[2] - a[3] * b[3], a[1] * b[0] + a[0] * b[1] - a[3] * b[2] + a[2] * b[3],
                      a[2] * b[0] + a[3] * b[1] + a[0] * b[2] - a[1] * b[3], a[3] * b[0] - a[2] * b[1] + a[1] * b[2] + a[0] * b[3])


def x0_sort():
    return Composite("x0", [Free("p0", 3), Free("v0", 3), UnitQuat("q0")])


FNS = [rdd2.derive_strapdown_ins_propagation, SE23LieGroup.exp_mixed, SE23LieGroup.calculate_N]


def traces(tier="quick"):
    T = []
    f = f_ins()

    class OmegaOfY(Expr):
        def __init__(self):
            def fn(low):
                R = low.R
                dt = Frac.of(R, R.gen("dt_0"))
                return [[Frac.of(R, R.gen(f"y{i}")) / dt] for i in range(3)]
            super().__init__("omega_b", (3, 1), fn, None)

        def sample_joint(self, rng, vals):
            dt = vals["dt"][0][0]
            return [[vals["y"][i][0] / dt] for i in range(3)]

    def b_flow(x0, a_b, g, dt, y, omega_b):
        x1 = f(x0, a_b, omega_b, g, dt)
        dx = ca.jacobian(x1, dt)
        p1, v1, q1 = x1[0:3], x1[3:6], x1[6:10]
        rhs = ca.vertcat(v1, spec.R_quat(q1) @ a_b - ca.vertcat(0, 0, g), qmul(q1, ca.vertcat(0, omega_b)) / 2)
        return {"dx": dx, "rhs": rhs, "qnorm": ca.dot(q1, q1), "one": ca.SX.ones(1, 1)}

    T.append(_Trace("C08.flow", [x0_sort(), Free("a_b", 3), Free("g", 1), Pos("dt"), RotVec("y", 2, 0.3, 3.0), OmegaOfY()], b_flow, [
        Ob("flow: d/d(dt) (p, v, q) = (v, R(q) a - g e3, q (0,w)/2) at time dt", "dx", "rhs"),
        Ob("norm: |q(dt)|^2 = 1", "qnorm", "one")], functions=FNS, decide=CLOSED, lemmas=["L-ODE"], budget_s=600,
        note="w_b := y/dt (y = w dt the rotation over the step); derivative taken in dt before the binding (fixed w_b)"))

    def b_init(x0, a_b, omega_b, g, dt):
        return {"x1": f(x0, a_b, omega_b, g, dt), "x0": x0}

    T.append(_Trace("C08.init", [x0_sort(), Free("a_b", 3), Free("omega_b", 3), Free("g", 1), Const("dt", [[0]])], b_init,
                    [Ob("init: dt = 0 is the identity", "x1", "x0")], functions=FNS, decide=TAYLOR))

    # zero rotation rate, any dt: pure translation kinematics, exact (Taylor branches at theta = 0)
    def b_norot(x0, a_b, omega_b, g, dt):
        x1 = f(x0, a_b, omega_b, g, dt)
        p0, v0, q0 = x0[0:3], x0[3:6], x0[6:10]
        acc = spec.R_quat(q0) @ a_b - ca.vertcat(0, 0, g)
        return {"x1": x1, "spec": ca.vertcat(p0 + v0 * dt + acc * dt * dt / 2, v0 + acc * dt, q0)}

    T.append(_Trace("C08.zero-rate", [x0_sort(), Free("a_b", 3), Const("omega_b", [[0]] * 3), Free("g", 1), Free("dt", 1)], b_norot,
                    [Ob("w = 0: p + v dt + (R a - g e3) dt^2/2, v + (R a - g e3) dt, q unchanged", "x1", "spec")], functions=FNS, decide=TAYLOR))

    # semigroup law, stated directly: w = rate * axis, dt_i = angle_i / rate
    def b_comp(x0, a_b, g, axis, rate, a, b_):
        w = rate * axis
        t1, t2 = a / rate, b_ / rate
        xa = f(x0, a_b, w, g, t1)
        xab = f(xa, a_b, w, g, t2)
        xs = f(x0, a_b, w, g, t1 + t2)
        return {"two_steps": xab, "one_step": xs}

    T.append(_Trace("C08.comp", [x0_sort(), Free("a_b", 3), Free("g", 1), UnitVec("axis"), Pos("rate"), Angle("a", 2, 0.3, 1.4), Angle("b_", 2, 0.3, 1.4)],
                    b_comp, [Ob("comp: propagate t1 then t2 = propagate t1 + t2", "two_steps", "one_step")], functions=FNS, decide=CLOSED,
                    budget_s=900, note="rotation angles a = |w| t1, b = |w| t2 as independent base-angle atoms"))
    return T


def jobs(tier="quick"):
    from .taylor_cell import strapdown_job
    return [strapdown_job("C08")]


def canaries(tier="quick"):
    f = f_ins()

    def b(x0, a_b, omega_b, g, dt):
        x1 = f(x0, a_b, omega_b, g, dt)
        p0, v0, q0 = x0[0:3], x0[3:6], x0[6:10]
        acc = spec.R_quat(q0) @ a_b + ca.vertcat(0, 0, g)
        return {"x1": x1, "wrong": ca.vertcat(p0 + v0 * dt + acc * dt * dt / 2, v0 + acc * dt, q0)}

    return [_Trace("C08.canary.gravity-sign", [x0_sort(), Free("a_b", 3), Const("omega_b", [[0]] * 3), Free("g", 1), Free("dt", 1)], b,
                   [Ob("gravity pulls up [false]", "x1", "wrong")], decide=TAYLOR)]


MIN_OBLIGATIONS = {"quick": 5, "thorough": 5}
TRUSTED = ["A-GRAPH, A-REAL, own ring engine (see C01)", "CasADi symbolic differentiation (ca.jacobian w.r.t. dt)"]
ASSUMPTIONS = ["lemma L-ODE (uniqueness of solutions of the IMU kinematics) turns flow + init into 'exact solution at time dt'",
               "flow / comp are proved on the closed-form cell (|w| dt above the Taylor switch of every coefficient); exactly zero rate is proved separately; on the small-angle cell the real-arithmetic deviation from the exact flow is bounded rigorously (taylor-cell obligation, <= 1e-11) for |w_i| <= 3.5 rad/s, dt <= 20 ms",
               "requires dt > 0 for flow (dt = 0 is init)"]
