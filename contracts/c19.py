"""C19 — SymPy <-> CasADi expression conversion preserves meaning.

Structural induction over expression trees.  The induction step for a constructor K,
    sem(conv(K(a1..ak))) = sem_K(sem(conv a1), ...),
is discharged by RUNNING THE REAL CONVERTER on K(x1..xk) with fresh leaves and proving, with z3, that the result has
the semantics of K for all values of the leaves (C99 semantics for CasADi opcodes, SymPy semantics for SymPy heads;
transcendental functions as shared uninterpreted functions).  Constant leaves are decided from the `ast` of the branch
(`int(f)` is truncation).  Compositionality (a branch recurses only on the node's own arguments) is a syntactic obligation.
"""
from __future__ import annotations

import ast
import inspect
import math
import time
import traceback
from fractions import Fraction

import casadi as ca
import sympy
import z3

from cyverif import ir, smt
from cyverif.harness import ERROR, PROVED, REFUTED, UNDECIDED, Result
from cyecca import symbolic

UF = {n: z3.Function(n, z3.RealSort(), z3.RealSort()) for n in
      ("sin", "cos", "tan", "asin", "acos", "atan", "exp", "log", "sinh", "cosh", "tanh", "asinh", "acosh", "atanh", "erf", "sqrt")}
UF2 = {n: z3.Function(n, z3.RealSort(), z3.RealSort(), z3.RealSort()) for n in ("atan2", "pow")}


def zfloor(x):
    return z3.ToReal(z3.ToInt(x))


def ztrunc(x):
    return z3.If(x >= 0, zfloor(x), -zfloor(-x))


def zround_half_even(x):
    f = zfloor(x)
    d = x - f
    even = z3.ToInt(f) % 2 == 0
    return z3.If(d < 0.5, f, z3.If(d > 0.5, f + 1, z3.If(even, f, f + 1)))


def b2r(b):
    return z3.If(b, z3.RealVal(1), z3.RealVal(0))


# ---------------------------------------------------------------------------------------------------
# semantics of CasADi scalar opcodes (C99 / CasADi VM), booleans as 0/1 reals
def casadi_sem(op, a, b=None):
    T = lambda x: x != 0
    table = {
        "ADD": lambda: a + b, "SUB": lambda: a - b, "MUL": lambda: a * b, "DIV": lambda: a / b, "NEG": lambda: -a, "SQ": lambda: a * a, "TWICE": lambda: 2 * a,
        "INV": lambda: 1 / a, "FABS": lambda: z3.If(a >= 0, a, -a), "SIGN": lambda: z3.If(a > 0, z3.RealVal(1), z3.If(a < 0, z3.RealVal(-1), z3.RealVal(0))),
        "LT": lambda: b2r(a < b), "LE": lambda: b2r(a <= b), "EQ": lambda: b2r(a == b), "NE": lambda: b2r(a != b), "NOT": lambda: b2r(z3.Not(T(a))),
        "AND": lambda: b2r(z3.And(T(a), T(b))), "OR": lambda: b2r(z3.Or(T(a), T(b))), "IF_ELSE_ZERO": lambda: z3.If(T(a), b, z3.RealVal(0)),
        "FMIN": lambda: z3.If(a < b, a, b), "FMAX": lambda: z3.If(a > b, a, b), "FLOOR": lambda: zfloor(a), "CEIL": lambda: -zfloor(-a),
        "FMOD": lambda: a - b * ztrunc(a / b), "REMAINDER": lambda: a - b * zround_half_even(a / b),
        "SQRT": lambda: UF["sqrt"](a), "POW": lambda: UF2["pow"](a, b), "ATAN2": lambda: UF2["atan2"](a, b),
    }
    if op in table:
        return table[op]()
    if op.lower() in UF:
        return UF[op.lower()](a)
    raise KeyError(op)


# ---------------------------------------------------------------------------------------------------
# semantics of the SymPy heads the converter emits / accepts
class NoSem(Exception):
    pass


def sym_bool(e, env):
    if e is sympy.true or e is True:
        return z3.BoolVal(True)
    if e is sympy.false or e is False:
        return z3.BoolVal(False)
    if isinstance(e, sympy.StrictLessThan):
        return sym_sem(e.lhs, env) < sym_sem(e.rhs, env)
    if isinstance(e, sympy.LessThan):
        return sym_sem(e.lhs, env) <= sym_sem(e.rhs, env)
    if isinstance(e, sympy.StrictGreaterThan):
        return sym_sem(e.lhs, env) > sym_sem(e.rhs, env)
    if isinstance(e, sympy.GreaterThan):
        return sym_sem(e.lhs, env) >= sym_sem(e.rhs, env)
    if isinstance(e, sympy.Eq):
        return sym_sem(e.lhs, env) == sym_sem(e.rhs, env)
    if isinstance(e, sympy.Ne):
        return sym_sem(e.lhs, env) != sym_sem(e.rhs, env)
    if isinstance(e, sympy.And):
        return z3.And([sym_bool(a, env) for a in e.args])
    if isinstance(e, sympy.Or):
        return z3.Or([sym_bool(a, env) for a in e.args])
    if isinstance(e, sympy.Not):
        return z3.Not(sym_bool(e.args[0], env))
    if isinstance(e, sympy.Symbol):  # a 0/1-valued variable used as a condition
        return env[e.name] != 0
    raise NoSem(f"boolean {type(e).__name__}: {e}")


def sym_sem(e, env):
    if isinstance(e, bool):
        return b2r(z3.BoolVal(e))
    if isinstance(e, (int, float)):
        return z3.RealVal(str(Fraction(e)))
    if isinstance(e, sympy.Symbol):
        return env[e.name]
    if isinstance(e, sympy.Rational):
        if e.q == 1 or (e.q & (e.q - 1)) == 0:
            return z3.RealVal(f"{e.p}/{e.q}")
        # a non-dyadic rational constant is the double nearest to p/q on both sides (A-REAL exception: a constant
        # cannot be more exact than the floating-point type it is stored in)
        return z3.RealVal(str(Fraction(e.p / e.q)))
    if isinstance(e, sympy.Float):
        return z3.RealVal(str(Fraction(float(e))))
    if isinstance(e, sympy.Add):
        return z3.Sum([sym_sem(a, env) for a in e.args])
    if isinstance(e, sympy.Mul):
        r = z3.RealVal(1)
        for a in e.args:
            r = r * sym_sem(a, env)
        return r
    if isinstance(e, sympy.Pow):
        base, ex = e.args
        if ex.is_Integer:
            n = int(ex)
            b = sym_sem(base, env)
            r = z3.RealVal(1)
            for _ in range(abs(n)):
                r = r * b
            return r if n >= 0 else 1 / r
        if ex == sympy.Rational(1, 2):
            return UF["sqrt"](sym_sem(base, env))
        return UF2["pow"](sym_sem(base, env), sym_sem(ex, env))
    if isinstance(e, sympy.Mod):
        a, b = (sym_sem(x, env) for x in e.args)
        return a - b * zfloor(a / b)
    if isinstance(e, sympy.floor):
        return zfloor(sym_sem(e.args[0], env))
    if isinstance(e, sympy.ceiling):
        return -zfloor(-sym_sem(e.args[0], env))
    if isinstance(e, sympy.Abs):
        a = sym_sem(e.args[0], env)
        return z3.If(a >= 0, a, -a)
    if isinstance(e, sympy.sign):
        a = sym_sem(e.args[0], env)
        return z3.If(a > 0, z3.RealVal(1), z3.If(a < 0, z3.RealVal(-1), z3.RealVal(0)))
    if isinstance(e, sympy.Piecewise):
        r = None
        for val, cond in reversed(e.args):
            v = sym_sem(val, env)
            r = v if r is None and cond is sympy.true else z3.If(sym_bool(cond, env), v, r if r is not None else z3.RealVal(0))
        return r
    if isinstance(e, (sympy.Rel, sympy.And, sympy.Or, sympy.Not)) or e in (sympy.true, sympy.false):
        return b2r(sym_bool(e, env))
    name = type(e).__name__
    if name in UF and len(e.args) == 1:
        return UF[name](sym_sem(e.args[0], env))
    if name == "atan2":
        return UF2["atan2"](sym_sem(e.args[0], env), sym_sem(e.args[1], env))
    raise NoSem(f"{name}: {e}")


def sx_sem(expr, syms):
    """semantics of an SX scalar over named SX symbols, via the IR and the opcode table"""
    ins = {k: v for k, v in syms.items()}
    g, on, _ = ir.extract(ins, {"e": expr})
    env = {(k, 0, 0): z3.Real(k) for k in ins}
    memo = {}

    def ev(n):
        if n is None:
            return z3.RealVal(0)
        if n in memo:
            return memo[n]
        op, args, payload = g.nodes[n]
        if op == "INPUT":
            v = env[payload]
        elif op == "CONST":
            v = z3.RealVal(str(payload))
        elif op == "CONSTPOW":
            v = casadi_sem("POW", ev(args[0]), ev(args[1]))
            ex = g.nodes[args[1]]
            if ex[0] == "CONST" and not isinstance(ex[2], str) and ex[2].denominator == 1:
                b = ev(args[0])
                r = z3.RealVal(1)
                for _ in range(abs(int(ex[2]))):
                    r = r * b
                v = r if ex[2] >= 0 else 1 / r
            elif ex[0] == "CONST" and ex[2] == Fraction(1, 2):
                v = UF["sqrt"](ev(args[0]))
        else:
            v = casadi_sem(op, *[ev(a) for a in args])
        memo[n] = v
        return v

    return [[ev(n) for n in row] for row in on["e"]]


# ===================================================================================================
class Job:
    functions = [symbolic.sympy_to_casadi, symbolic._sympy_parser, symbolic.casadi_to_sympy]

    def __init__(self, id):
        self.id = id

    def replay(self, w):
        rs = self.run(0)
        bad = [r for r in rs if r.status == REFUTED]
        return bool(bad), "; ".join(f"{r.ob}: {r.detail[:200]}" for r in bad[:3])

    def prove(self, name, assumptions, goal, replay=None):
        t0 = time.time()
        st, model, secs, solver = smt.check(assumptions, goal, 20)
        if st == "proved":
            return Result(self.id, name, PROVED, f"SMT:{solver}", "", secs, "unsat", None, 1)
        if st == "refuted":
            w = None
            detail = f"counter-model {str(model)[:200]}"
            if replay is not None:
                try:
                    w = replay(model)
                    detail += " | replayed on the real converter: values differ" if w else " | replay did not reproduce"
                except Exception as e:
                    detail += f" | replay error {type(e).__name__}: {e}"
            return Result(self.id, name, REFUTED, f"SMT:{solver}", "", secs, detail, w, 1)
        return Result(self.id, name, UNDECIDED, "SMT", "", secs, "unknown", None, 1)


def mval(model, x):
    return smt.model_value(model, x)


class CasadiToSympy(Job):
    """one obligation per CasADi opcode the converter accepts"""
    UNARY = ["NEG", "SQ", "TWICE", "INV", "FABS", "SIGN", "NOT", "FLOOR", "CEIL", "SQRT", "SIN", "COS", "TAN", "ASIN", "ACOS", "ATAN", "EXP", "LOG", "SINH", "COSH", "TANH",
             "ASINH", "ATANH", "ERF"]
    BINARY = ["ADD", "SUB", "MUL", "DIV", "LT", "LE", "EQ", "NE", "AND", "OR", "IF_ELSE_ZERO", "FMIN", "FMAX", "FMOD", "REMAINDER", "ATAN2", "POW"]
    BUILD = {
        "NEG": lambda x, y: -x, "SQ": lambda x, y: x * x, "TWICE": lambda x, y: 2 * x, "INV": lambda x, y: 1 / x, "FABS": lambda x, y: ca.fabs(x), "SIGN": lambda x, y: ca.sign(x),
        "NOT": lambda x, y: ca.logic_not(x), "FLOOR": lambda x, y: ca.floor(x), "CEIL": lambda x, y: ca.ceil(x), "SQRT": lambda x, y: ca.sqrt(x), "SIN": lambda x, y: ca.sin(x),
        "COS": lambda x, y: ca.cos(x), "TAN": lambda x, y: ca.tan(x), "ASIN": lambda x, y: ca.asin(x), "ACOS": lambda x, y: ca.acos(x), "ATAN": lambda x, y: ca.atan(x),
        "EXP": lambda x, y: ca.exp(x), "LOG": lambda x, y: ca.log(x), "SINH": lambda x, y: ca.sinh(x), "COSH": lambda x, y: ca.cosh(x), "TANH": lambda x, y: ca.tanh(x),
        "ASINH": lambda x, y: ca.asinh(x), "ATANH": lambda x, y: ca.atanh(x), "ERF": lambda x, y: ca.erf(x),
        "ADD": lambda x, y: x + y, "SUB": lambda x, y: x - y, "MUL": lambda x, y: x * y, "DIV": lambda x, y: x / y, "LT": lambda x, y: x < y, "LE": lambda x, y: x <= y,
        "EQ": lambda x, y: ca.eq(x, y), "NE": lambda x, y: ca.ne(x, y), "AND": lambda x, y: ca.logic_and(x, y), "OR": lambda x, y: ca.logic_or(x, y),
        "IF_ELSE_ZERO": lambda x, y: ca.if_else(x, y, 0), "FMIN": lambda x, y: ca.fmin(x, y), "FMAX": lambda x, y: ca.fmax(x, y), "FMOD": lambda x, y: ca.fmod(x, y),
        "REMAINDER": lambda x, y: ca.remainder(x, y), "ATAN2": lambda x, y: ca.atan2(x, y), "POW": lambda x, y: x ** y,
    }

    def run(self, seed=0):
        R = []
        x, y = ca.SX.sym("x"), ca.SX.sym("y")
        zx, zy = z3.Real("x"), z3.Real("y")
        env = {"x": zx, "y": zy}
        for op in self.UNARY + self.BINARY:
            name = f"casadi_to_sympy: opcode {op} keeps its meaning"
            try:
                e = self.BUILD[op](x, y)
                opname = ir.OPNAME[e.op()]
                if opname != op and not (op == "IF_ELSE_ZERO"):
                    # CasADi canonicalised the expression to another opcode: check whatever it built
                    pass
                syms = {}
                out = symbolic.casadi_to_sympy(e, syms)
                # map sympy symbols back by name
                spec = sx_sem(e, {"x": x, "y": y})[0][0]
                got = sym_sem(out, env)
                dom = []
                if op in ("DIV", "FMOD", "REMAINDER"):
                    dom.append(zy != 0)
                if op == "INV":
                    dom.append(zx != 0)
                if op in ("AND", "OR", "NOT", "IF_ELSE_ZERO"):
                    dom += [z3.Or(zx == 0, zx == 1)] + ([z3.Or(zy == 0, zy == 1)] if op in ("AND", "OR") else [])

                def replay(model, e=e, out=out):
                    vx, vy = mval(model, zx), mval(model, zy)
                    f = ca.Function("f", [x, y], [e])
                    c = float(f(vx, vy))
                    s_ = out.subs({sympy.Symbol("x"): sympy.nsimplify(vx), sympy.Symbol("y"): sympy.nsimplify(vy)}) if hasattr(out, "subs") else out
                    try:
                        sv = float(s_)
                    except TypeError:
                        sv = float(bool(s_))
                    if abs(c - sv) > 1e-9:
                        return {"inputs": {"x": vx, "y": vy}, "casadi": c, "sympy": sv, "sympy_expr": str(out)}
                    return None

                R.append(self.prove(name, dom, got == spec, replay))
            except NoSem as ex:
                R.append(Result(self.id, name, UNDECIDED, "SMT", "", 0.0, f"no semantics for the emitted SymPy head: {ex}"))
            except NotImplementedError as ex:
                R.append(Result(self.id, name + " (or raises)", PROVED, "STRUCT", "", 0.0, "converter raises NotImplementedError for this opcode (not altered)", None, 1))
            except Exception as ex:
                R.append(Result(self.id, name, REFUTED, "TRACE", "", 0.0, f"converter raised {type(ex).__name__}: {ex}", {"inputs": {"opcode": op}}, 1))
        # constants and symbols
        for v in (3.0, -2.0, 0.0, 2.5, -0.125, 1e-3):
            out = symbolic.casadi_to_sympy(ca.SX(v))
            ok = float(out) == v
            R.append(Result(self.id, f"casadi_to_sympy: constant {v} keeps its value", PROVED if ok else REFUTED, "EVAL", "", 0.0, f"-> {out!r}", None if ok else {"inputs": {"c": v}}, 1))
        syms = {}
        a = symbolic.casadi_to_sympy(x + x * y, syms)
        b = symbolic.casadi_to_sympy(x - 1, syms)
        ok = len({s.name for s in a.free_symbols | b.free_symbols}) == 2 and (a.free_symbols & b.free_symbols) == {sympy.Symbol("x")}
        R.append(Result(self.id, "casadi_to_sympy: one SymPy symbol per CasADi symbol across calls sharing the table", PROVED if ok else REFUTED, "EVAL", "", 0.0,
                        f"table {syms}", None if ok else {"inputs": {}}, 1))
        for shape in ((2, 2), (3, 2), (2, 3), (1, 3), (3, 1)):
            name = f"casadi_to_sympy: [bounded: shape {shape}] matrix converted entry by entry in place"
            try:
                Mx = ca.SX.zeros(*shape)
                for i in range(shape[0]):
                    for j in range(shape[1]):
                        Mx[i, j] = (i + 1) * x + (j + 2) * y + (3 * i + j) * x * y
                m = symbolic.casadi_to_sympy(Mx)
                ok = tuple(m.shape) == shape
                goals = []
                if ok:
                    sem = sx_sem(Mx, {"x": x, "y": y})
                    goals = [sym_sem(m[i, j], env) == sem[i][j] for i in range(shape[0]) for j in range(shape[1])]
                    R.append(self.prove(name, [], z3.And(goals), lambda model, shape=shape: {"inputs": {"shape": list(shape)}}))
                else:
                    R.append(Result(self.id, name, REFUTED, "EVAL", "", 0.0, f"shape {m.shape}", {"inputs": {"shape": list(shape)}}, 1))
            except Exception as ex:
                R.append(Result(self.id, name, REFUTED, "TRACE", "", 0.0, f"converter raised {type(ex).__name__}: {ex}", {"inputs": {"shape": list(shape)}}, 1))
        return R


class SympyToCasadi(Job):
    def run(self, seed=0):
        R = []
        xs, ys, zs, ws = sympy.symbols("x y z w")
        zx, zy, zz, zw = (z3.Real(n) for n in "xyzw")
        env = {"x": zx, "y": zy, "z": zz, "w": zw}
        foo, bar = sympy.Function("foo"), sympy.Function("bar")
        cases = [
            ("Add arity 2", xs + ys), ("Add arity 3", xs + ys + zs), ("Add arity 4", xs + ys + zs + ws), ("Mul arity 2", xs * ys), ("Mul arity 3", xs * ys * zs),
            ("Mul arity 4", xs * ys * zs * ws), ("Pow integer exponent", xs ** 3), ("Pow negative exponent", xs ** -2), ("Pow Half = sqrt", sympy.sqrt(xs)),
            ("Pow rational exponent 3/2", xs ** sympy.Rational(3, 2)), ("Pow symbolic exponent", xs ** ys), ("sin", sympy.sin(xs)), ("cos", sympy.cos(xs)),
            ("tan", sympy.tan(xs)), ("atan", sympy.atan(xs)), ("Integer leaf in context", xs + 7), ("negative Integer", xs * -3), ("Rational leaf", xs + sympy.Rational(2, 7)),
            ("Half leaf", xs * sympy.Rational(1, 2)), ("Float leaf 2.5", xs * sympy.Float(2.5)), ("Float leaf -0.75", xs + sympy.Float(-0.75)),
            ("nested", sympy.sin(xs * ys) ** 2 + sympy.sqrt(zs) / (1 + ws ** 2)), ("division", xs / ys),
        ]
        for label, expr in cases:
            name = f"sympy_to_casadi: {label} keeps its meaning"
            try:
                syms = {}
                out, syms = symbolic.sympy_to_casadi(expr, symbols=syms)
                for nme in "xyzw":
                    syms.setdefault(nme, ca.SX.sym(nme))
                got = sx_sem(ca.SX(out), {k: syms[k] for k in "xyzw"})[0][0]
                spec = sym_sem(expr, env)

                def replay(model, expr=expr, out=out, syms=syms):
                    vals = {n: mval(model, env[n]) for n in "xyzw"}
                    vals = {k: (1.5 if v is None else v) for k, v in vals.items()}
                    f = ca.Function("f", [syms[k] for k in "xyzw"], [out])
                    c = float(f(*[vals[k] for k in "xyzw"]))
                    sv = float(expr.subs({sympy.Symbol(k): vals[k] for k in "xyzw"}).evalf())
                    return {"inputs": vals, "casadi": c, "sympy": sv} if abs(c - sv) > 1e-9 * (1 + abs(sv)) else None

                dom = [zx > 0, zy != 0, zz > 0]
                R.append(self.prove(name, dom, got == spec, replay))
            except NoSem as ex:
                R.append(Result(self.id, name, UNDECIDED, "SMT", "", 0.0, str(ex)))
            except Exception as ex:
                R.append(Result(self.id, name, REFUTED, "TRACE", "", 0.0, f"converter raised {type(ex).__name__}: {ex}", {"inputs": {"expr": str(expr)}}, 1))
        # matrices (shapes up to 3x3; bounded and said so)
        for shape in ((1, 1), (2, 1), (2, 3), (3, 3)):
            M = sympy.Matrix(shape[0], shape[1], lambda i, j: xs * (i + 1) + ys * j)
            out, syms = symbolic.sympy_to_casadi(M, symbols={})
            ok = tuple(out.shape) == shape
            if ok:
                sem = sx_sem(out, {k: syms[k] for k in ("x", "y") if k in syms})
                goals = [sem[i][j] == sym_sem(M[i, j], env) for i in range(shape[0]) for j in range(shape[1])]
                r = self.prove(f"sympy_to_casadi: [bounded: shape {shape}] matrix converted entry by entry", [], z3.And(goals))
                R.append(r)
            else:
                R.append(Result(self.id, f"sympy_to_casadi: matrix shape {shape}", REFUTED, "EVAL", "", 0.0, f"shape {out.shape}", {"inputs": {}}, 1))
        # user-supplied function map: the function applied is the one keyed by the node's head
        fd = {"foo": ca.sin, "bar": ca.cos}
        for head, fn_ in (("foo", "sin"), ("bar", "cos")):
            name = f"sympy_to_casadi: f_dict applies the function keyed by the node's head ({head} -> {fn_})"
            try:
                out, syms = symbolic.sympy_to_casadi(sympy.Function(head)(xs), f_dict=dict(fd), symbols={})
                got = sx_sem(ca.SX(out), {"x": syms["x"]})[0][0]

                def replay(model, out=out, syms=syms, fn_=fn_):
                    v = mval(model, zx) or 0.3
                    c = float(ca.Function("f", [syms["x"]], [out])(v))
                    sv = getattr(math, fn_)(v)
                    return {"inputs": {"x": v}, "casadi": c, "expected": sv} if abs(c - sv) > 1e-9 else None

                R.append(self.prove(name, [UF["sin"](z3.RealVal(0)) != UF["cos"](z3.RealVal(0))], got == UF[fn_](zx), replay))
            except Exception as ex:
                R.append(Result(self.id, name, REFUTED, "TRACE", "", 0.0, f"{type(ex).__name__}: {ex}", {"inputs": {}}, 1))
        # symbol table consistency, incl. the cse path
        syms = {}
        a, _ = symbolic.sympy_to_casadi(xs + 1, symbols=syms)
        b, _ = symbolic.sympy_to_casadi(xs * ys, symbols=syms)
        same = sorted(syms) == ["x", "y"] and ca.depends_on(b, syms["x"]) and ca.depends_on(a, syms["x"])
        R.append(Result(self.id, "sympy_to_casadi: the same symbol name maps to the same variable across calls sharing the (initially empty) table", PROVED if same else REFUTED, "EVAL", "", 0.0,
                        f"table after converting x + 1 and x*y with one shared table: {sorted(syms)}",
                        None if same else {"inputs": {"calls": ["sympy_to_casadi(x + 1, symbols=tab)", "sympy_to_casadi(x*y, symbols=tab)"], "tab_initial": {}}, "table_after": sorted(syms),
                                           "free_variables": [str(v) for v in ca.symvar(ca.vertcat(ca.SX(a), ca.SX(b)))]}, 1))
        # the same with a pre-populated table: the caller's variable is the one used
        pre = {"x": ca.SX.sym("x")}
        a2, _ = symbolic.sympy_to_casadi(xs * 2 + ys, symbols=pre)
        okp = sorted(pre) == ["x", "y"] and ca.depends_on(ca.SX(a2), pre["x"])
        R.append(Result(self.id, "sympy_to_casadi: a pre-populated table is used (the caller's variable for x) and extended (y added)", PROVED if okp else REFUTED, "EVAL", "", 0.0,
                        f"table {sorted(pre)}", None if okp else {"inputs": {"tab_initial": ["x"]}, "table_after": sorted(pre)}, 1))
        syms = {}
        big = (xs + ys) ** 2 + sympy.sin(xs + ys) * (xs + ys)
        c, _ = symbolic.sympy_to_casadi(big, symbols=syms, cse=True)
        okc = sorted(syms) == ["x", "y"]
        R.append(Result(self.id, "sympy_to_casadi(cse=True): the table holds exactly the expression's symbols (no temporary leaks, none missing)", PROVED if okc else REFUTED, "EVAL", "", 0.0,
                        f"table {sorted(syms)}", None if okc else {"inputs": {"expr": str(big), "tab_initial": {}}, "table_after": sorted(syms)}, 1))
        if okc:
            sem = sx_sem(ca.SX(c), {k: syms[k] for k in ("x", "y")})[0][0]
            R.append(self.prove("sympy_to_casadi(cse=True): result keeps the meaning of the expression", [], sem == sym_sem(big, env)))
        # chained common sub-expressions (a later definition refers to an earlier one)
        chained = sympy.sin(xs + ys) ** 2 + (xs + ys) * sympy.cos(sympy.sin(xs + ys) ** 2) + sympy.sin(xs + ys) ** 2 * (xs + ys)
        try:
            syms2 = {}
            c2, _ = symbolic.sympy_to_casadi(chained, symbols=syms2, cse=True)
            free = [v.name() for v in ca.symvar(ca.SX(c2))]
            okf = sorted(free) == ["x", "y"] and sorted(syms2) == ["x", "y"]
            R.append(Result(self.id, "sympy_to_casadi(cse=True, chained sub-expressions): result depends only on the expression's own symbols", PROVED if okf else REFUTED,
                            "EVAL", "", 0.0, f"free variables {free}, table {sorted(syms2)}", None if okf else {"inputs": {"expr": str(chained)}}, 1))
            if okf:
                sem2 = sx_sem(ca.SX(c2), {k: syms2[k] for k in ("x", "y")})[0][0]
                R.append(self.prove("sympy_to_casadi(cse=True, chained sub-expressions): result keeps the meaning", [], sem2 == sym_sem(chained, env)))
        except Exception as ex:
            R.append(Result(self.id, "sympy_to_casadi(cse=True, chained sub-expressions)", REFUTED, "TRACE", "", 0.0, f"{type(ex).__name__}: {ex}", {"inputs": {}}, 1))
        # constructs the converter cannot represent must raise
        for label, expr in (("exp", sympy.exp(xs)), ("Abs", sympy.Abs(xs)), ("Piecewise", sympy.Piecewise((xs, xs > 0), (0, True))), ("relational", xs < ys),
                            ("Max", sympy.Max(xs, ys)), ("Mod", sympy.Mod(xs, ys)), ("unknown function", sympy.Function("g")(xs))):
            try:
                out, _ = symbolic.sympy_to_casadi(expr, symbols={})
                R.append(Result(self.id, f"sympy_to_casadi: unsupported construct {label} raises instead of being altered", REFUTED, "EVAL", "", 0.0,
                                f"returned {out}", {"inputs": {"expr": str(expr)}}, 1))
            except NotImplementedError:
                R.append(Result(self.id, f"sympy_to_casadi: unsupported construct {label} raises instead of being altered", PROVED, "EVAL", "", 0.0, "NotImplementedError", None, 1))
            except Exception as ex:
                R.append(Result(self.id, f"sympy_to_casadi: unsupported construct {label} raises NotImplementedError", REFUTED, "EVAL", "", 0.0,
                                f"raised {type(ex).__name__}: {ex}", {"inputs": {"expr": str(expr)}}, 1))
        return R


class LeafBranches(Job):
    """constant leaves of _sympy_parser, decided from the ast of the real source: returned value == value of the leaf
    for EVERY leaf of that type (Python int() is truncation toward zero); and compositionality of the recursive calls."""

    def run(self, seed=0):
        R = []
        src = inspect.getsource(symbolic._sympy_parser)
        fn = ast.parse(src).body[0]
        branches = {}

        def walk_if(node):
            test = node.test
            key = None
            if isinstance(test, ast.Compare) and isinstance(test.left, ast.Name) and test.left.id == "f_type":
                key = ast.unparse(test.comparators[0])
            elif isinstance(test, ast.Compare):
                key = ast.unparse(test)
            branches[key] = node.body
            if node.orelse and len(node.orelse) == 1 and isinstance(node.orelse[0], ast.If):
                walk_if(node.orelse[0])
            elif node.orelse:
                branches["else"] = node.orelse

        for st in fn.body:
            if isinstance(st, ast.If) and isinstance(st.test, ast.Compare) and getattr(st.test.left, "id", None) == "f_type":
                walk_if(st)
        f_int, f_real = z3.Int("f"), z3.Real("f")
        leaf_types = {
            "sympy.core.numbers.Integer": ("int", None), "int": ("int", None), "sympy.core.numbers.Float": ("real", None),
            "sympy.core.numbers.One": ("const", 1), "sympy.core.numbers.Zero": ("const", 0), "sympy.core.numbers.NegativeOne": ("const", -1),
            "sympy.core.numbers.Half": ("const", Fraction(1, 2)),
        }

        def ret_expr(body):
            for st in body:
                if isinstance(st, ast.Return):
                    return st.value
            return None

        def tr(e, f):
            if isinstance(e, ast.Name) and e.id == "f":
                return f
            if isinstance(e, ast.Constant) and isinstance(e.value, (int, float)):
                return z3.RealVal(str(Fraction(e.value)))
            if isinstance(e, ast.UnaryOp) and isinstance(e.op, ast.USub):
                return -tr(e.operand, f)
            if isinstance(e, ast.Call) and isinstance(e.func, ast.Name) and e.func.id == "float" and len(e.args) == 1:
                a = tr(e.args[0], f)  # float() of a sympy Float / int is value preserving (double)
                return z3.ToReal(a) if a.sort() == z3.IntSort() else a
            if isinstance(e, ast.Call) and isinstance(e.func, ast.Name) and e.func.id == "int" and len(e.args) == 1:
                a = tr(e.args[0], f)
                return a if a.sort() == z3.IntSort() else ztrunc(a)
            raise NoSem(ast.unparse(e))

        for key, (kind, const) in leaf_types.items():
            name = f"sympy_to_casadi: constant leaf {key.split('.')[-1]} converts to its own value (for every such leaf)"
            if key not in branches:
                R.append(Result(self.id, name, REFUTED, "AST", "", 0.0, "branch not found", {"inputs": {}}, 1))
                continue
            try:
                e = ret_expr(branches[key])
                if kind == "int":
                    v = tr(e, f_int)
                    goal = (z3.ToReal(v) if v.sort() == z3.IntSort() else v) == z3.ToReal(f_int)
                    R.append(self.prove(name, [], goal))
                elif kind == "real":
                    v = tr(e, f_real)

                    def replay(model):
                        fv = mval(model, f_real)
                        out, _ = symbolic.sympy_to_casadi(sympy.Float(fv), symbols={})
                        return {"inputs": {"f": fv}, "converted": float(out)} if float(out) != fv else None

                    R.append(self.prove(name, [], v == f_real, replay))
                else:
                    v = tr(e, f_real)
                    R.append(self.prove(name, [], v == z3.RealVal(str(const))))
            except NoSem as ex:
                R.append(Result(self.id, name, UNDECIDED, "AST", "", 0.0, f"return expression outside the leaf subset: {ex}"))
        # ---- variable-arity heads: the accumulation loop, for EVERY arity, by the invariant rule ------------------------
        # v(j) = meaning of prs(f.args[j]) (= meaning of f.args[j] by the induction hypothesis), S = left fold of the head's
        # operation from its unit: S(0) = unit, S(j+1) = S(j) (+|*) v(j)  (= the n-ary SymPy head over the reals)
        v = z3.Function("v_arg", z3.IntSort(), z3.RealSort())
        for key, head, unit, opf in (("sympy.core.add.Add", "Add", 0, lambda a, b: a + b), ("sympy.core.mul.Mul", "Mul", 1, lambda a, b: a * b)):
            name = f"sympy_to_casadi: {head} of ANY arity = fold of the converted arguments (loop invariant acc = fold of the first i arguments: init, preservation; the branch returns acc after the loop)"
            body = branches.get(key)
            shape_ok = (body is not None and len(body) == 3 and isinstance(body[0], ast.Assign) and len(body[0].targets) == 1 and isinstance(body[0].targets[0], ast.Name)
                        and isinstance(body[0].value, ast.Constant) and isinstance(body[1], ast.For) and isinstance(body[1].target, ast.Name)
                        and ast.unparse(body[1].iter) == f"{fn.args.args[0].arg}.args" and not body[1].orelse and len(body[1].body) == 1 and isinstance(body[1].body[0], (ast.AugAssign, ast.Assign))
                        and isinstance(body[2], ast.Return))
            if shape_ok:
                acc, loopvar, aug = body[0].targets[0].id, body[1].target.id, body[1].body[0]
                if isinstance(aug, ast.Assign):
                    # `acc = acc op prs(v)` is the same statement as `acc op= prs(v)`
                    ok_as = (len(aug.targets) == 1 and isinstance(aug.targets[0], ast.Name) and isinstance(aug.value, ast.BinOp)
                             and isinstance(aug.value.left, ast.Name) and aug.value.left.id == aug.targets[0].id)
                    aug = ast.AugAssign(target=aug.targets[0], op=aug.value.op, value=aug.value.right) if ok_as else None
                shape_ok = (aug is not None and isinstance(aug.target, ast.Name) and aug.target.id == acc and ast.unparse(aug.value) == f"prs({loopvar})"
                            and isinstance(body[2].value, ast.Name) and body[2].value.id == acc and type(aug.op) in (ast.Add, ast.Sub, ast.Mult, ast.Div))
            def replay(model, head=head):
                # concrete arity-5 instance on the real converter
                xs5 = sympy.symbols("a b c d e")
                expr = (sympy.Add if head == "Add" else sympy.Mul)(*xs5)
                out, syms = symbolic.sympy_to_casadi(expr, symbols={})
                vals = [1.5, -2.0, 0.25, 3.0, -0.5]
                c = float(ca.Function("f", [syms[str(x)] for x in xs5], [out])(*vals))
                want = sum(vals) if head == "Add" else math.prod(vals)
                return {"inputs": dict(zip("abcde", vals)), "casadi": c, "expected": want} if abs(c - want) > 1e-12 else None

            alt = None
            if not shape_ok and body is not None and len(body) == 1 and isinstance(body[0], ast.Return) and isinstance(body[0].value, ast.Call):
                # `return sum(prs(a) for a in f.args)` (Python's sum: start 0, left fold with +) / `math.prod(...)` (start 1, *)
                cl = body[0].value
                fname = ast.unparse(cl.func)
                if fname in ("sum", "math.prod") and len(cl.args) == 1 and not cl.keywords and isinstance(cl.args[0], (ast.GeneratorExp, ast.ListComp)):
                    ge = cl.args[0]
                    if (len(ge.generators) == 1 and not ge.generators[0].ifs and isinstance(ge.generators[0].target, ast.Name)
                            and ast.unparse(ge.generators[0].iter) == f"{fn.args.args[0].arg}.args" and ast.unparse(ge.elt) == f"prs({ge.generators[0].target.id})"):
                        alt = (0, ast.Add) if fname == "sum" else (1, ast.Mult)
            if not shape_ok and alt is None:
                w = None
                try:
                    w = replay(None)
                except Exception as ex:
                    w = {"inputs": {"arity": 5}, "error": f"{type(ex).__name__}: {ex}"}
                msg = "branch is not `acc = c; for a in f.args: acc op= prs(a); return acc`: no invariant VCs generated"
                if w:
                    R.append(Result(self.id, name, REFUTED, "EVAL", "", 0.0, msg + "; an arity-5 instance run on the real converter gives a wrong value", w, 1))
                else:
                    R.append(Result(self.id, name, UNDECIDED, "AST", "", 0.0, msg + " (arity 2..5 instances run on the real converter are correct)"))
                continue
            c0 = z3.RealVal(str(Fraction(body[0].value.value if alt is None else alt[0])))
            code_op = {ast.Add: lambda a, b: a + b, ast.Sub: lambda a, b: a - b, ast.Mult: lambda a, b: a * b, ast.Div: lambda a, b: a / b}[type(aug.op) if alt is None else alt[1]]
            S = z3.Function(f"S_{head}", z3.IntSort(), z3.RealSort())
            i, n_ = z3.Ints("i n")
            sacc = z3.Real("acc")
            ax = [S(0) == unit, z3.ForAll([i], z3.Implies(i >= 0, S(i + 1) == opf(S(i), v(i))))]

            R.append(self.prove(name + " [init]", ax, c0 == S(0), replay))
            R.append(self.prove(name + " [preservation]", ax + [i >= 0, i < n_, sacc == S(i)], code_op(sacc, v(i)) == S(i + 1), replay))
        # ---- matrices of ANY shape: the doubly nested loop assigns every entry its converted entry ----------------------
        name = "sympy_to_casadi: matrix of ANY shape converted entry by entry (nested loop invariants)"
        body = branches.get("sympy.matrices.dense.MutableDenseMatrix")
        ok_shape = False
        pn = fn.args.args[0].arg
        if body is not None:
            # leading aliases of the shape (`n_rows, n_cols = f.shape`, `m = f.shape[0]`) are resolved textually
            import re as _re
            alias = {}
            body = list(body)
            while body and isinstance(body[0], ast.Assign) and len(body[0].targets) == 1:
                t, v = body[0].targets[0], ast.unparse(body[0].value)
                if isinstance(t, ast.Tuple) and len(t.elts) == 2 and all(isinstance(e_, ast.Name) for e_ in t.elts) and v == f"{pn}.shape":
                    alias[t.elts[0].id], alias[t.elts[1].id] = f"{pn}.shape[0]", f"{pn}.shape[1]"
                elif isinstance(t, ast.Name) and v in (f"{pn}.shape[0]", f"{pn}.shape[1]"):
                    alias[t.id] = v
                else:
                    break
                body = body[1:]

            def U(node):
                txt = ast.unparse(node)
                for a_, v_ in alias.items():
                    txt = _re.sub(rf"\b{_re.escape(a_)}\b", v_, txt)
                return txt
        if body is not None and len(body) == 3 and isinstance(body[0], ast.Assign) and isinstance(body[1], ast.For) and isinstance(body[2], ast.Return):
            outer = body[1]
            inner = outer.body[0] if len(outer.body) == 1 and isinstance(outer.body[0], ast.For) else None
            if inner is not None and len(inner.body) == 1 and isinstance(inner.body[0], ast.Assign):
                m = ast.unparse(body[0].targets[0])
                iv, jv = ast.unparse(outer.target), ast.unparse(inner.target)
                ok_shape = (U(body[0].value) == f"ca.SX({pn}.shape[0], {pn}.shape[1])" and U(outer.iter) == f"range({pn}.shape[0])"
                            and U(inner.iter) == f"range({pn}.shape[1])" and ast.unparse(inner.body[0].targets[0]) == f"{m}[{iv}, {jv}]"
                            and ast.unparse(inner.body[0].value) == f"prs({pn}[{iv}, {jv}])" and ast.unparse(body[2].value) == m and iv != jv
                            and iv not in alias and jv not in alias)
        if not ok_shape:
            R.append(Result(self.id, name, UNDECIDED, "AST", "", 0.0, "branch is not the canonical `mat = ca.SX(r, c); for i in range(r): for j in range(c): mat[i, j] = prs(f[i, j]); return mat`"))
        else:
            ve = z3.Function("v_entry", z3.IntSort(), z3.IntSort(), z3.RealSort())
            Mx = z3.Array("mat", z3.IntSort(), z3.ArraySort(z3.IntSort(), z3.RealSort()))
            i, j, a_, b_, r_, c_ = z3.Ints("i j a b r c")
            rows_done = lambda M, ii: z3.ForAll([a_, b_], z3.Implies(z3.And(a_ >= 0, a_ < ii, b_ >= 0, b_ < c_), M[a_][b_] == ve(a_, b_)))
            row_part = lambda M, ii, jj: z3.ForAll([b_], z3.Implies(z3.And(b_ >= 0, b_ < jj), M[ii][b_] == ve(ii, b_)))
            M1 = z3.Store(Mx, i, z3.Store(Mx[i], j, ve(i, j)))
            base = [r_ >= 0, c_ >= 0, i >= 0, i < r_]
            R.append(self.prove(name + " [inner loop: preservation]", base + [j >= 0, j < c_, rows_done(Mx, i), row_part(Mx, i, j)], z3.And(rows_done(M1, i), row_part(M1, i, j + 1))))
            R.append(self.prove(name + " [outer loop: preservation]", base + [rows_done(Mx, i), row_part(Mx, i, c_)], rows_done(Mx, i + 1)))
            R.append(self.prove(name + " [exit: every entry is its converted entry]", [r_ >= 0, c_ >= 0, rows_done(Mx, r_)],
                                z3.ForAll([a_, b_], z3.Implies(z3.And(a_ >= 0, a_ < r_, b_ >= 0, b_ < c_), Mx[a_][b_] == ve(a_, b_)))))
        # Rational: converted numerator / converted denominator, by symbolic execution of the (straight-line) branch:
        # prs(f.numerator | f.p) and prs(f.denominator | f.q) are the integers p, q (induction hypothesis: Integer / int leaves)
        name = "sympy_to_casadi: Rational leaf p/q converts to p / q (for every rational; branch executed symbolically)"
        zp, zq = z3.Int("p"), z3.Int("q")

        def trq(e, env):
            if isinstance(e, ast.Name) and e.id in env:
                return env[e.id]
            if isinstance(e, ast.Constant) and isinstance(e.value, (int, float)):
                return z3.RealVal(str(Fraction(e.value)))
            if isinstance(e, ast.UnaryOp) and isinstance(e.op, ast.USub):
                return -trq(e.operand, env)
            if isinstance(e, ast.BinOp) and type(e.op) in (ast.Add, ast.Sub, ast.Mult, ast.Div):
                a_, b_ = trq(e.left, env), trq(e.right, env)
                return {ast.Add: lambda: a_ + b_, ast.Sub: lambda: a_ - b_, ast.Mult: lambda: a_ * b_, ast.Div: lambda: a_ / b_}[type(e.op)]()
            if isinstance(e, ast.Call) and isinstance(e.func, ast.Name) and e.func.id == "prs" and len(e.args) == 1:
                t = ast.unparse(e.args[0])
                if t in (f"{pname0}.numerator", f"{pname0}.p"):
                    return z3.ToReal(zp)
                if t in (f"{pname0}.denominator", f"{pname0}.q"):
                    return z3.ToReal(zq)
            raise NoSem(ast.unparse(e))

        pname0 = fn.args.args[0].arg
        try:
            env, ret = {}, None
            for st in branches.get("sympy.core.numbers.Rational", []):
                if isinstance(st, ast.Assign) and len(st.targets) == 1 and isinstance(st.targets[0], ast.Name):
                    env[st.targets[0].id] = trq(st.value, env)
                elif isinstance(st, ast.Return):
                    ret = trq(st.value, env)
                    break
                else:
                    raise NoSem(ast.unparse(st))
            if ret is None:
                raise NoSem("no return")

            def replay_q(model):
                pv, qv = mval(model, zp), mval(model, zq)
                pv, qv = int(pv if pv is not None else 3), int(qv if qv else 7)
                if qv <= 0:
                    return None
                out, _ = symbolic.sympy_to_casadi(sympy.Rational(pv, qv) + sympy.Symbol("x") * 0, symbols={})
                val = float(ca.SX(out)) if ca.SX(out).is_constant() else None
                return {"inputs": {"p": pv, "q": qv}, "converted": val} if val is None or abs(val - pv / qv) > 1e-15 * (1 + abs(pv / qv)) else None

            R.append(self.prove(name, [zq > 0], ret == z3.ToReal(zp) / z3.ToReal(zq), replay_q))
        except NoSem as ex:
            R.append(Result(self.id, name, UNDECIDED, "AST", "", 0.0, f"branch outside the straight-line subset: {ex} (the concrete Rational cases are decided by the constructor obligations)"))
        # compositionality: every recursive call is on a value DERIVED FROM the node itself (data flow, not names):
        # derived = the parameter; targets of assignments / loops whose source is derived; attributes, subscripts and calls on
        # derived values.  A recursion on anything else (the symbol table, f_dict, a constant) is refuted.
        pname = fn.args.args[0].arg
        derived = {pname}

        def is_derived(e):
            if isinstance(e, ast.Name):
                return e.id in derived
            if isinstance(e, (ast.Attribute, ast.Subscript, ast.Starred)):
                return is_derived(e.value)
            if isinstance(e, ast.Call):
                return any(is_derived(a_) for a_ in e.args) or (isinstance(e.func, ast.Attribute) and is_derived(e.func.value))
            if isinstance(e, (ast.Tuple, ast.List)):
                return any(is_derived(x) for x in e.elts)
            return False

        def bind(t):
            for nm in ast.walk(t):
                if isinstance(nm, ast.Name):
                    derived.add(nm.id)

        for _ in range(3):  # to a fixed point (the function is short)
            for node in ast.walk(fn):
                if isinstance(node, ast.Assign) and is_derived(node.value):
                    for t in node.targets:
                        if not isinstance(t, ast.Subscript):
                            bind(t)
                elif isinstance(node, ast.For) and is_derived(node.iter):
                    bind(node.target)
                elif isinstance(node, ast.comprehension) and is_derived(node.iter):
                    bind(node.target)
        bad = []
        n_calls = 0
        for node in ast.walk(fn):
            if isinstance(node, ast.Call) and isinstance(node.func, ast.Name) and node.func.id == "prs":
                n_calls += 1
                if not (len(node.args) == 1 and is_derived(node.args[0])):
                    bad.append(ast.unparse(node))
        ok = not bad and n_calls >= 10
        R.append(Result(self.id, "sympy_to_casadi: every branch recurses only on values derived from the node itself (compositionality, by data flow over the ast)",
                        PROVED if ok else REFUTED, "AST", "", 0.0, f"{n_calls} recursive calls; recursion on foreign values {bad}", None if ok else {"inputs": {}}, 1))
        return R


class ConstBranch(Job):
    """casadi_to_sympy, constant leaf: for EVERY double c the returned number equals c.  The OP_CONST branch of the real
    source is executed symbolically (straight-line code with if / else; float(expr) = c, int(expr) = truncation toward zero,
    round(x) = some integer within 1/2 of x, abs, arithmetic, comparisons); every path must return a value equal to c."""

    def run(self, seed=0):
        name = "casadi_to_sympy: a constant leaf converts to exactly its own value (for every double; OP_CONST branch executed symbolically)"
        src = inspect.getsource(symbolic.casadi_to_sympy)
        fn = ast.parse(src).body[0]
        pname = fn.args.args[0].arg
        body = None
        for node in ast.walk(fn):
            if isinstance(node, ast.If) and isinstance(node.test, ast.Compare) and ast.unparse(node.test).replace(" ", "") in ("op==ca.OP_CONST", "ca.OP_CONST==op"):
                body = node.body
        if body is None:
            return [Result(self.id, name, UNDECIDED, "AST", "", 0.0, "no `op == ca.OP_CONST` branch found")]
        c = z3.Real("c")
        fresh = iter(range(1000))
        side = []

        def tr(e, env):
            if isinstance(e, ast.Name):
                if e.id in env:
                    return env[e.id]
                raise NoSem(e.id)
            if isinstance(e, ast.Constant) and isinstance(e.value, (int, float)) and not isinstance(e.value, bool):
                return z3.RealVal(str(Fraction(e.value)))
            if isinstance(e, ast.UnaryOp) and isinstance(e.op, ast.USub):
                return -tr(e.operand, env)
            if isinstance(e, ast.BinOp) and type(e.op) in (ast.Add, ast.Sub, ast.Mult, ast.Div):
                a_, b_ = tr(e.left, env), tr(e.right, env)
                return {ast.Add: lambda: a_ + b_, ast.Sub: lambda: a_ - b_, ast.Mult: lambda: a_ * b_, ast.Div: lambda: a_ / b_}[type(e.op)]()
            if isinstance(e, ast.Call) and isinstance(e.func, ast.Name) and len(e.args) == 1:
                arg_is_leaf = isinstance(e.args[0], ast.Name) and e.args[0].id == pname
                if e.func.id == "float":
                    return c if arg_is_leaf else tr(e.args[0], env)
                if e.func.id == "int":
                    return ztrunc(c if arg_is_leaf else tr(e.args[0], env))
                if e.func.id == "round":
                    x = c if arg_is_leaf else tr(e.args[0], env)
                    r = z3.Int(f"round!{next(fresh)}")
                    side.append(z3.And(z3.ToReal(r) - x <= z3.RealVal("1/2"), x - z3.ToReal(r) <= z3.RealVal("1/2")))
                    return z3.ToReal(r)
                if e.func.id == "abs":
                    x = tr(e.args[0], env)
                    return z3.If(x >= 0, x, -x)
            raise NoSem(ast.unparse(e))

        def cond(e, env):
            if isinstance(e, ast.Compare) and len(e.ops) == 1:
                a_, b_ = tr(e.left, env), tr(e.comparators[0], env)
                return {ast.Eq: a_ == b_, ast.NotEq: a_ != b_, ast.Lt: a_ < b_, ast.LtE: a_ <= b_, ast.Gt: a_ > b_, ast.GtE: a_ >= b_}[type(e.ops[0])]
            if isinstance(e, ast.BoolOp):
                vs = [cond(v, env) for v in e.values]
                return z3.And(vs) if isinstance(e.op, ast.And) else z3.Or(vs)
            if isinstance(e, ast.UnaryOp) and isinstance(e.op, ast.Not):
                return z3.Not(cond(e.operand, env))
            raise NoSem(ast.unparse(e))

        paths = []  # (path condition list, returned value)

        def run_block(stmts, env, pc):
            for k, st in enumerate(stmts):
                if isinstance(st, ast.Assign) and len(st.targets) == 1 and isinstance(st.targets[0], ast.Name):
                    env = dict(env)
                    env[st.targets[0].id] = tr(st.value, env)
                elif isinstance(st, ast.Return):
                    paths.append((pc, tr(st.value, env)))
                    return True
                elif isinstance(st, ast.If):
                    t = cond(st.test, env)
                    r1 = run_block(st.body + stmts[k + 1:], env, pc + [t])
                    r2 = run_block(st.orelse + stmts[k + 1:], env, pc + [z3.Not(t)])
                    return r1 and r2
                else:
                    raise NoSem(ast.unparse(st))
            return False  # fell off the end without returning

        try:
            complete = run_block(body, {}, [])
        except NoSem as ex:
            return [Result(self.id, name, UNDECIDED, "AST", "", 0.0, f"branch outside the supported subset: {ex}")]
        if not complete or not paths:
            return [Result(self.id, name, REFUTED, "AST", "", 0.0, "some path of the branch does not return a value", {"inputs": {}}, 1)]

        def replay(model):
            v = mval(model, c)
            v = 1e-12 if v is None else v
            got = symbolic.casadi_to_sympy(ca.SX(v))
            return {"inputs": {"c": v}, "converted": str(got)} if float(got) != float(v) else None

        R = []
        for k, (pc, ret) in enumerate(paths):
            R.append(self.prove(name + f" [path {k + 1}/{len(paths)}]", side + pc, ret == c, replay))
        return R


def jobs(tier="quick"):
    return [CasadiToSympy("C19.casadi_to_sympy"), SympyToCasadi("C19.sympy_to_casadi"), LeafBranches("C19.sympy_to_casadi.leaves"), ConstBranch("C19.casadi_to_sympy.const")]


class TruncCanary(Job):
    """engine canary: `int(f)` on a real-valued leaf must be refuted"""

    def run(self, seed=0):
        f = z3.Real("f")
        r = self.prove("int(f) == f for every real f [false]", [], ztrunc(f) == f)
        if r.status == REFUTED:
            r.witness = {"inputs": {"f": "model"}}
        return [r]


def canaries(tier="quick"):
    return [TruncCanary("C19.canary.truncation")]


MIN_OBLIGATIONS = {"quick": 60, "thorough": 60}
TRUSTED = ["op-semantics tables in contracts/c19.py: CasADi opcodes with C99 semantics (fmod = a - b trunc(a/b), remainder = a - b round-half-even(a/b)), SymPy heads (Mod = a - b floor(a/b), Piecewise, relationals); transcendental functions as shared uninterpreted functions",
           "z3 (nonlinear real + integer arithmetic for floor/trunc)"]
ASSUMPTIONS = ["structural induction: per-constructor obligations + compositionality give the property for all trees (induction itself not machine-checked)",
               "variable-arity constructors (Add, Mul) and matrices: for every arity / shape by loop-invariant VCs generated from the ast of the real branch (canonical accumulate / nested-range shapes; ca.SX item assignment and Python's range / for semantics assumed); arity 2..4 and four shapes are additionally run on the real converter",
               "booleans are 0/1-valued reals on the CasADi side; logical opcodes are checked for 0/1 operands"]
BOUNDED = ["casadi_to_sympy matrices: shapes (1,1), (2,1), (2,3), (3,3) (its loop is over CasADi's own element access)"]
