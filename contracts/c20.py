"""C20 — the simulation bus delivers every message once, in order, to the right nodes (per-call contracts).

Plain Python: verification conditions are generated from the `ast` of the real source of each function (cyverif.pyvc)
and discharged by z3.  The ghost delivery trace is an (array, length) pair; lists and the subscriber registry likewise."""
from __future__ import annotations

import ast
import inspect
import time

import z3

from cyverif.harness import ERROR, PROVED, REFUTED, UNDECIDED, Result
from cyverif.pyvc import Event, Executor, Obj, Opaque, State, SymDict, SymList, Unsupported, prove

from cyecca.sim import uros
from cyecca.estimate.attitude import estimator as est_mod
from cyecca.estimate.attitude import simulator as sim_mod


def unwrap(f):
    return inspect.unwrap(f)


class VCJob:
    def __init__(self, id, fn, functions=None):
        self.id = id
        self.fn = unwrap(fn)
        self.functions = functions or [self.fn]
        self.assumptions = []

    def run(self, seed=0):
        t0 = time.time()
        try:
            rs = self.check()
        except Unsupported as e:
            return [Result(self.id, "in reach of the AST executor", UNDECIDED, "PYVC", "", time.time() - t0, f"outside the supported Python subset: {e}")]
        except Exception as e:
            import traceback
            return [Result(self.id, "vc generation", ERROR, "PYVC", "", time.time() - t0, f"{type(e).__name__}: {e}\n{traceback.format_exc(limit=6)}")]
        return rs

    def vc(self, name, assumptions, goal, witness_fn=None):
        t1 = time.time()
        st, model = prove(assumptions, goal, 20)
        if st == "proved":
            return Result(self.id, name, PROVED, "PYVC:z3", "", time.time() - t1, "unsat", None, 1)
        if st == "refuted":
            w = None
            detail = "z3 counter-model: " + str(model)[:400]
            if witness_fn is not None:
                try:
                    w = witness_fn(model)
                    if w:
                        detail += " | replayed on the real class: contract violated"
                except Exception as e:
                    detail += f" | replay error {type(e).__name__}: {e}"
            return Result(self.id, name, REFUTED, "PYVC:z3", "", time.time() - t1, detail, w, 1)
        return Result(self.id, name, UNDECIDED, "PYVC:z3", "", time.time() - t1, "z3 unknown", None, 1)

    def replay(self, w):
        rs = self.run(0)
        bad = [r for r in rs if r.status == REFUTED]
        return bool(bad), "; ".join(f"{r.ob}: {r.detail[:200]}" for r in bad[:3])


# =====================================================================================================
class PublishJob(VCJob):
    """Publisher.publish(msg): wrong type -> ValueError and no delivery; otherwise exactly one synchronous delivery of the
    same msg object to every subscriber of the topic, in registration order, and to no one else."""

    def check(self):
        ex = Executor(self.fn)
        isinst = z3.Bool("msg_has_the_topic_type")
        ex.isinstance_hook = lambda e, s, a, b: isinst
        s = State()
        self_, core, msg = Obj("self"), Obj("core"), Obj("msg")
        topic = z3.Int("topic")
        subs = SymDict("subs")
        s.locals.update({"self": self_, "msg": msg})
        s.heap.update({("self", "msg_type"): Obj("msg_type"), ("self", "topic"): topic, ("self", "core"): core, ("core", "_subscribers"): subs})
        len0, c0, a0 = s.tr_len, s.tr_callee, s.tr_arg
        finals = ex.run(s)
        R = []
        for name, assum, goal in s.vcs:
            R.append(self.vc(name, assum, goal))
        L, n = subs.lists[topic], subs.lens[topic]
        j, k = z3.Ints("jj kk")
        kinds = set()
        for f in finals:
            base = list(f.pc) + [len0 >= 0, n >= 0]
            if f.outcome and f.outcome[0] == "raise":
                kinds.add("raise")
                goal = z3.And(z3.Not(isinst), f.tr_len == len0, z3.BoolVal(f.outcome[1] == "ValueError"),
                              z3.ForAll([k], z3.Implies(z3.And(k >= 0, k < len0), z3.And(f.tr_callee[k] == c0[k], f.tr_arg[k] == a0[k]))))
                R.append(self.vc("wrong message type: raises ValueError and delivers nothing", base, goal, self.witness_wrongtype))
            else:
                delivered = z3.And(f.tr_len == len0 + n,
                                   z3.ForAll([j], z3.Implies(z3.And(j >= 0, j < n), z3.And(f.tr_callee[len0 + j] == L[j], f.tr_arg[len0 + j] == msg.ident))),
                                   z3.ForAll([k], z3.Implies(z3.And(k >= 0, k < len0), z3.And(f.tr_callee[k] == c0[k], f.tr_arg[k] == a0[k]))))
                unchanged = f.tr_len == len0
                goal = z3.And(isinst, z3.If(subs.dom[topic], delivered, unchanged))
                tag = "topic with subscribers" if any(e.kind == "loop" for e in f.events) else "topic without subscribers"
                kinds.add(tag)
                R.append(self.vc(f"accepted message ({tag}): delivered exactly once to every subscriber of the topic, in order, same object, nobody else", base, goal,
                                 self.witness_delivery))
        ok = kinds == {"raise", "topic with subscribers", "topic without subscribers"}
        R.append(Result(self.id, "path coverage: reject / no-subscriber / fan-out paths all present", PROVED if ok else REFUTED, "PYVC", "", 0.0, f"paths {sorted(kinds)}",
                        None if ok else {"inputs": {}}, 1))
        return R

    # ---- concrete replays on the real classes
    def witness_wrongtype(self, model):
        core = uros.Core()
        got = []
        uros.Subscriber(core, "t", uros.msgs.Imu, lambda m: got.append(m))
        pub = uros.Publisher(core, "t", uros.msgs.Imu)
        try:
            pub.publish(uros.msgs.Mag(core))
        except ValueError:
            return None if not got else {"inputs": {"case": "wrong type delivered"}}
        except Exception as e:
            return {"inputs": {"case": f"wrong type raised {type(e).__name__} instead of ValueError"}}
        return {"inputs": {"case": "message of the wrong type was accepted", "delivered": len(got)}}

    def witness_delivery(self, model):
        core = uros.Core()
        got = []
        for i in range(3):
            uros.Subscriber(core, "t", uros.msgs.Imu, lambda m, i=i: got.append((i, id(m))))
        uros.Subscriber(core, "other", uros.msgs.Imu, lambda m: got.append(("other", id(m))))
        pub = uros.Publisher(core, "t", uros.msgs.Imu)
        m = uros.msgs.Imu(core)
        pub.publish(m)
        want = [(0, id(m)), (1, id(m)), (2, id(m))]
        return None if got == want else {"inputs": {"case": "3 subscribers on the topic, 1 on another", "deliveries": [g[0] for g in got], "expected": [0, 1, 2]}}


# =====================================================================================================
class SubscriberInitJob(VCJob):
    """Subscriber.__init__: appends self at the END of exactly core._subscribers[topic] (created if absent); all other
    topics unchanged (registry invariant: list of topic t = subscribers created with topic t, in creation order)."""

    def check(self):
        ex = Executor(self.fn)
        s = State()
        self_, core = Obj("self"), Obj("core")
        topic = z3.Int("topic")
        subs = SymDict("subs")
        locked = z3.Bool("pub_sub_locked")
        s.locals.update({"self": self_, "core": core, "topic": topic, "msg_type": Obj("msg_type"), "callback": Obj("callback")})
        s.heap.update({("core", "_subscribers"): subs, ("core", "pub_sub_locked"): locked})
        dom0, lists0, lens0 = subs.dom, subs.lists, subs.lens

        def dict_store(e, st, tgt, base, key, v):
            if v == []:
                base.dom = z3.Store(base.dom, key, True)
                base.lens = z3.Store(base.lens, key, 0)
            else:
                raise Unsupported("dict store of a non-empty value")

        def call_hook(e, st, desc, node, args):
            if desc.endswith(".append") and isinstance(node.func.value, ast.Subscript):
                d = e.expr(node.func.value.value, st)
                key = e.expr(node.func.value.slice, st)
                if isinstance(d, SymDict) and isinstance(args[0], Obj):
                    n = d.lens[key]
                    d.lists = z3.Store(d.lists, key, z3.Store(d.lists[key], n, args[0].ident))
                    d.lens = z3.Store(d.lens, key, n + 1)
                    return None
            # registry.setdefault(key, []).append(x): the same two steps in one expression
            if (desc.endswith(".append") and isinstance(node.func.value, ast.Call) and isinstance(node.func.value.func, ast.Attribute)
                    and node.func.value.func.attr == "setdefault" and len(node.func.value.args) == 2
                    and isinstance(node.func.value.args[1], ast.List) and not node.func.value.args[1].elts):
                d = e.expr(node.func.value.func.value, st)
                key = e.expr(node.func.value.args[0], st)
                if isinstance(d, SymDict) and isinstance(args[0], Obj) and z3.is_expr(key):
                    n = z3.If(d.dom[key], d.lens[key], z3.IntVal(0))
                    d.dom = z3.Store(d.dom, key, True)
                    d.lists = z3.Store(d.lists, key, z3.Store(d.lists[key], n, args[0].ident))
                    d.lens = z3.Store(d.lens, key, n + 1)
                    return None
            return NotImplemented

        ex.dict_store, ex.call_hook = dict_store, call_hook
        finals = ex.run(s)
        R = []
        t2, j = z3.Ints("t2 j")
        seen_ok = False
        for f in finals:
            d = f.heap[("core", "_subscribers")]
            if f.outcome and f.outcome[0] == "raise":
                R.append(self.vc("registry locked: construction refused (AssertionError), registry untouched", list(f.pc),
                                 z3.And(locked, z3.BoolVal(d.dom is dom0 and d.lens is lens0 and d.lists is lists0))))
                continue
            seen_ok = True
            base = list(f.pc) + [z3.ForAll([t2], lens0[t2] >= 0)]
            n_old = z3.If(dom0[topic], lens0[topic], 0)
            goal = z3.And(
                z3.Not(locked), d.dom[topic], d.lens[topic] == n_old + 1, d.lists[topic][n_old] == self_.ident,
                z3.ForAll([j], z3.Implies(z3.And(j >= 0, j < n_old, dom0[topic]), d.lists[topic][j] == lists0[topic][j])),
                z3.ForAll([t2], z3.Implies(t2 != topic, z3.And(d.dom[t2] == dom0[t2], d.lens[t2] == lens0[t2], d.lists[t2] == lists0[t2]))))
            R.append(self.vc("appends self at the end of its own topic's list; earlier subscribers keep their order; every other topic unchanged (frame)", base, goal,
                             self.witness))
            want = {("self", "core"): core, ("self", "topic"): topic}
            okf = all(f.heap.get(k) is v for k, v in want.items()) and isinstance(f.heap.get(("self", "callback")), Obj)
            R.append(Result(self.id, "fields core / topic / callback stored as given", PROVED if okf else REFUTED, "PYVC", "", 0.0, "syntactic", None if okf else {"inputs": {}}, 1))
        if not seen_ok:
            R.append(Result(self.id, "normal path exists", REFUTED, "PYVC", "", 0.0, "no normal path", {"inputs": {}}, 1))
        return R

    def witness(self, model):
        core = uros.Core()
        a = uros.Subscriber(core, "x", uros.msgs.Imu, lambda m: None)
        b = uros.Subscriber(core, "y", uros.msgs.Imu, lambda m: None)
        c = uros.Subscriber(core, "x", uros.msgs.Imu, lambda m: None)
        ok = core._subscribers.get("x") == [a, c] and core._subscribers.get("y") == [b]
        return None if ok else {"inputs": {"case": "x, y, x", "registry": {k: len(v) for k, v in core._subscribers.items()}}}


# =====================================================================================================
class SetParamJob(VCJob):
    """Core.set_param(name, value): writes exactly data[name], then broadcasts the parameter message; Param.update and
    Core.get_param: after update p.value == core._params.data[p.name]."""

    def check(self):
        R = []
        # --- set_param
        ex = Executor(self.fn, event_calls=lambda d: "publish" if d.endswith(".publish") else None)
        s = State()
        self_ = Obj("self")
        params = Obj("params_msg")
        data = {}
        name, value = Obj("name"), z3.Real("value")
        s.locals.update({"self": self_, "name": name, "value": value})
        s.heap.update({("self", "_params"): params, ("params_msg", "data"): data, ("self", "pub_params"): Obj("pub_params")})
        finals = ex.run(s)
        ok = len(finals) == 1 and finals[0].outcome is None
        f = finals[0]
        evs = [e for e in f.events if e.kind == "publish"]
        ok = ok and len(evs) == 1 and evs[0].args and evs[0].args[0] is params and data.get(repr(name)) is value and len(data) == 1
        R.append(Result(self.id, "set_param: data[name] := value (only that key), then exactly one publish of the parameter message", PROVED if ok else REFUTED, "PYVC", "",
                        0.0, f"events {[e.callee for e in evs]}, keys written {list(data)}", None if ok else self.witness(None), 1))
        # --- get_param returns data[name]
        exg = Executor(unwrap(uros.Core.get_param))
        s2 = State()
        d2 = {repr(name): z3.Real("stored")}
        s2.locals.update({"self": self_, "name": name})
        s2.heap.update({("self", "_params"): params, ("params_msg", "data"): d2})
        fg = exg.run(s2)
        okg = len(fg) == 1 and fg[0].outcome == ("return", d2[repr(name)])
        R.append(Result(self.id, "get_param returns data[name]", PROVED if okg else REFUTED, "PYVC", "", 0.0, "syntactic", None if okg else {"inputs": {}}, 1))
        # --- Param.update: value := core.get_param(name)  (callee contract of get_param)
        exu = Executor(unwrap(uros.Param.update), event_calls=lambda d: "get_param" if d.endswith(".get_param") else None)
        stored = z3.Real("stored")
        exu.event_result = lambda e, st, desc, args: stored
        s3 = State()
        p = Obj("p")
        s3.locals["self"] = p
        pname = Obj("pname")
        s3.heap.update({("p", "core"): Obj("core"), ("p", "name"): pname, ("p", "value"): z3.Real("old")})
        fu = exu.run(s3)
        evs = [e for e in fu[0].events if e.kind == "get_param"]
        oku = len(fu) == 1 and fu[0].heap[("p", "value")] is stored and len(evs) == 1 and evs[0].args[0] is pname
        R.append(Result(self.id, "Param.update: value := core.get_param(own name)", PROVED if oku else REFUTED, "PYVC", "", 0.0, "syntactic", None if oku else {"inputs": {}}, 1))
        # --- params_callback of a node: update() is called exactly once on every parameter of param_list, in list order,
        #     for a parameter list of ARBITRARY length (loop invariant on the ghost call trace)
        for cls in (est_mod.AttitudeEstimator, sim_mod.Simulator):
            exc = Executor(unwrap(cls.params_callback))
            s4 = State()
            node = Obj("node")
            plist = SymList("param_list")
            s4.locals.update({"self": node, "msg": Obj("msg")})
            s4.heap[("node", "param_list")] = plist
            len0, c0, a0 = s4.tr_len, s4.tr_callee, s4.tr_arg
            fc = exc.run(s4)
            for name_, assum, goal in s4.vcs:
                R.append(self.vc(f"{cls.__name__}.params_callback {name_}", assum, goal))
            okp = len(fc) == 1 and fc[0].outcome is None and [e.callee for e in fc[0].events if e.kind == "loop"] == ["loop-deliveries:update"]
            R.append(Result(self.id, f"{cls.__name__}.params_callback: one path, the loop calls <parameter>.update()", PROVED if okp else REFUTED, "PYVC", "", 0.0,
                            f"{len(fc)} path(s), events {[e.callee for e in fc[0].events] if fc else []}", None if okp else {"inputs": {}}, 1))
            if okp:
                f = fc[0]
                j, k = z3.Ints("jp kp")
                n, L = plist.n, plist.arr
                goal = z3.And(f.tr_len == len0 + n,
                              z3.ForAll([j], z3.Implies(z3.And(j >= 0, j < n), f.tr_callee[len0 + j] == L[j])),
                              z3.ForAll([k], z3.Implies(z3.And(k >= 0, k < len0), z3.And(f.tr_callee[k] == c0[k], f.tr_arg[k] == a0[k]))))
                R.append(self.vc(f"{cls.__name__}.params_callback: update() exactly once on every parameter of the list, in order, nothing else (any list length)",
                                 list(f.pc) + [len0 >= 0, n >= 0], goal, self.witness_params(cls)))
        return R

    def witness(self, model):
        core = uros.Core()
        core.init_params() if False else None
        return {"inputs": {"case": "set_param contract"}}

    def witness_params(self, cls):
        def w(model):
            calls = []

            class P:
                def __init__(self, i):
                    self.i = i

                def update(self):
                    calls.append(self.i)

            class Node:
                param_list = [P(i) for i in range(4)]

            unwrap(cls.params_callback)(Node(), None)
            return None if calls == [0, 1, 2, 3] else {"inputs": {"case": "4 parameters", "update_calls": calls, "expected": [0, 1, 2, 3]}}
        return w


# =====================================================================================================
class LoggerJob(VCJob):
    """Logger.callback stores a deep copy of the latest message under its topic; every resumption of Logger.run writes
    time = core.now into the latest-data record, appends ONE deep copy of it, then sleeps for the logging period."""

    def check(self):
        R = []
        ev = lambda d: ("deepcopy" if d == "copy.deepcopy" else "append" if d.endswith("data_list.append") else "timeout" if d.endswith("Timeout") else
                        "get" if d.endswith(".get") else None)
        ex = Executor(unwrap(uros.Logger.run), event_calls=ev)
        s = State()
        lg, core = Obj("self"), Obj("core")
        latest = Obj("latest")
        data = {}
        now = z3.Real("now")
        dtv = z3.Real("dt_value")
        ex.event_result = lambda e, st, desc, args: (dtv if desc.endswith(".get") else Obj("copy_of_latest") if desc == "copy.deepcopy" else Opaque(desc))
        s.locals["self"] = lg
        s.heap.update({("self", "core"): core, ("core", "now"): now, ("self", "data_latest"): latest, ("latest", "data"): data, ("self", "dt"): Obj("dt_param"),
                       ("self", "data_list"): Obj("data_list")})
        finals = ex.run(s)
        f = finals[0]
        seq = [(e.kind, e.args) for e in f.events if e.kind in ("deepcopy", "append", "timeout", "yield", "iter", "get")]
        kinds = [k for k, _ in seq]
        ok = len(finals) == 1 and kinds == ["iter", "deepcopy", "append", "get", "timeout", "yield"][:len(kinds)] if False else None
        kinds2 = [k for k in kinds]
        want = ["iter", "deepcopy", "append", "timeout", "yield"]
        okseq = [k for k in kinds2 if k != "get"] == want
        time_written = data.get("time") is now
        copied = any(k == "deepcopy" and a and a[0] is data for k, a in seq)
        appended = any(k == "append" and a and isinstance(a[0], Obj) and a[0].name == "copy_of_latest" for k, a in seq)
        slept = any(k == "timeout" and len(a) == 2 and a[0] is core and a[1] is dtv for k, a in seq)
        # the logging period is READ AGAIN at every resumption (so that a parameter update reaches the row schedule): the
        # dt.get() event lies inside the iteration, between its start and the Timeout
        reread = ("iter" in kinds2 and "timeout" in kinds2 and kinds2.count("get") == 1
                  and kinds2.index("iter") < kinds2.index("get") < kinds2.index("timeout"))
        ok = okseq and time_written and copied and appended and slept and reread
        R.append(Result(self.id, "run: each resumption sets time := core.now, appends exactly one deep copy of the latest record, then waits Timeout(core, dt) with dt read at that resumption",
                        PROVED if ok else REFUTED, "PYVC", "", 0.0, f"event order {kinds2}; time written {time_written}; copy appended {appended}; timeout(dt) {slept}; period re-read inside the iteration {reread}",
                        None if ok else self.witness_logger(), 1))
        # callback
        exc = Executor(unwrap(uros.Logger.callback), event_calls=lambda d: "deepcopy" if d == "copy.deepcopy" else ("update" if d.endswith(".update") else None))
        exc.event_result = lambda e, st, desc, args: (Obj("copy_of_msg") if desc == "copy.deepcopy" else Opaque(desc))
        s2 = State()
        data2 = {}
        msg = Obj("msg")
        mdata = Obj("msg_data")
        topic = Obj("topic")
        s2.locals.update({"self": lg, "topic": topic, "msg": msg})
        s2.heap.update({("self", "data_latest"): latest, ("latest", "data"): data2, ("msg", "data"): mdata, ("self", "param_list"): [Obj("logger_dt")]})
        fin = exc.run(s2)
        okc = all(isinstance(data2.get(repr(topic)), Obj) and data2[repr(topic)].name == "copy_of_msg" for _ in fin) and len(data2) == 1
        R.append(Result(self.id, "callback: latest[topic] := deep copy of the message payload (only that topic)", PROVED if okc else REFUTED, "PYVC", "", 0.0,
                        f"keys written {list(data2)}", None if okc else {"inputs": {}}, 1))
        return R


    def witness_logger(self):
        """concrete history on the real classes: the period is changed while the logger runs"""
        try:
            core = uros.Core()
            pub = uros.Publisher(core, "mag", uros.msgs.Mag)
            logger = uros.Logger(core)
            core.init_params()
            core.set_param("logger/dt", 0.125)

            def changer():
                yield uros.simpy.Timeout(core, 0.4375)
                core.set_param("logger/dt", 0.25)

            uros.simpy.Process(core, changer())
            core.run(until=1.1)
            times = [float(r["time"]) for r in logger.data_list]
            want = [0.0, 0.125, 0.25, 0.375, 0.5, 0.75, 1.0]
            if [round(t, 6) for t in times] != want:
                return {"inputs": {"history": "logger/dt 0.125, set to 0.25 at t = 0.4375, run until 1.1"}, "row_times": times, "expected": want}
        except Exception as e:  # the scripted history is only an illustration; the obligation itself is decided on the ast
            return {"inputs": {}, "replay_error": f"{type(e).__name__}: {e}"}
        return {"inputs": {}}


# =====================================================================================================
class EstimatorJob(VCJob):
    """AttitudeEstimator.imu_callback / mag_callback: never predict with dt <= 0; corrections at most once per configured
    minimum period (minus the 1 ms scheduling tolerance); t_last_* updated exactly when a correction is applied."""

    def setup(self, ex, which):
        s = State()
        me, msg = Obj("self"), Obj("msg")
        t = z3.Real("t")
        mdata = {"time": t, "gyro": Obj("gyro"), "accel": Obj("accel"), "mag": Obj("mag")}
        s.locals.update({"self": me, "msg": msg})
        self.v = {k: z3.Real(k) for k in ("t_last_imu", "t_last_accel", "t_last_mag", "dt_min_accel", "dt_min_mag", "time_eps")}
        self.init = z3.Bool("initialized")
        s.heap.update({("msg", "data"): mdata, ("self", "t_last_imu"): self.v["t_last_imu"], ("self", "t_last_accel"): self.v["t_last_accel"],
                       ("self", "t_last_mag"): self.v["t_last_mag"], ("self", "initialized"): self.init, ("self", "time_eps"): self.v["time_eps"],
                       ("self", "dt_min_accel"): Obj("p_dt_min_accel"), ("self", "dt_min_mag"): Obj("p_dt_min_mag"), ("self", "eqs"): {},
                       ("self", "last_imu"): Obj("last_imu0"), ("self", "last_mag"): Obj("last_mag0")})
        getters = {"self.dt_min_accel.get": self.v["dt_min_accel"], "self.dt_min_mag.get": self.v["dt_min_mag"]}

        def call_hook(e, st, desc, node, args):
            if desc in getters:
                return getters[desc]
            if desc.endswith(".get"):
                return z3.Real("param_" + desc.replace(".", "_"))
            return NotImplemented

        ex.call_hook = call_hook
        self.t = t
        return s

    def check(self):
        R = []
        is_step = lambda d: ("step:" + d.split("'")[1]) if d.startswith("self.eqs[") else None
        # ---------------- imu_callback
        ex = Executor(unwrap(est_mod.AttitudeEstimator.imu_callback), event_calls=is_step)
        ex.event_result = lambda e, st, desc, args: [Opaque(desc + f"[{k}]") for k in range(6)]
        s = self.setup(ex, "imu")
        finals = ex.run(s)
        v, t = self.v, self.t
        dt = t - v["t_last_imu"]
        n_pred = n_acc = 0
        for f in finals:
            for e in f.events:
                if e.kind == "step:predict":
                    n_pred += 1
                    R.append(self.vc(f"imu_callback: predict is reached only with dt = t - t_last_imu > 0 (path {n_pred})", e.pc, dt > 0, self.witness_dt))
                    # the dt argument handed over is that difference (argument index 6)
                    okarg = z3.is_expr(e.args[6]) and z3.simplify(e.args[6] - dt).eq(z3.RealVal(0))
                    R.append(Result(self.id, f"imu_callback: predict receives dt = t - t_last_imu and the message time (path {n_pred})", PROVED if okarg and e.args[0] is t else REFUTED,
                                    "PYVC", "", 0.0, "syntactic", None if okarg else {"inputs": {}}, 1))
                if e.kind == "step:correct_accel":
                    n_acc += 1
                    R.append(self.vc(f"imu_callback: accelerometer correction only when t - t_last_accel >= dt_min_accel - time_eps (path {n_acc})", e.pc,
                                     t - v["t_last_accel"] >= v["dt_min_accel"] - v["time_eps"]))
            applied = any(e.kind == "step:correct_accel" for e in f.events)
            final_tla = f.heap[("self", "t_last_accel")]
            if f.outcome is None or f.outcome[0] == "return":
                goal = (final_tla == t) if applied else z3.BoolVal(final_tla is v["t_last_accel"])
                R.append(self.vc(f"imu_callback: t_last_accel {'set to t after the correction' if applied else 'unchanged when no correction is applied'}", f.pc, goal))
                goal2 = f.heap[("self", "t_last_imu")] == t
                R.append(self.vc("imu_callback: t_last_imu := t on every return path", f.pc, goal2))
        ok = n_pred >= 1 and n_acc >= 1
        R.append(Result(self.id, "imu_callback: predict and accelerometer-correction call sites found", PROVED if ok else REFUTED, "PYVC", "", 0.0,
                        f"{n_pred} predict, {n_acc} correct_accel call sites over {len(finals)} paths", None if ok else {"inputs": {}}, 1))
        # ---------------- mag_callback
        ex2 = Executor(unwrap(est_mod.AttitudeEstimator.mag_callback), event_calls=is_step)
        ex2.event_result = lambda e, st, desc, args: [Opaque(desc + f"[{k}]") for k in range(6)]
        s2 = self.setup(ex2, "mag")
        v, t = self.v, self.t
        fin2 = ex2.run(s2)
        n_mag = 0
        for f in fin2:
            applied = False
            for e in f.events:
                if e.kind == "step:correct_mag":
                    n_mag += 1
                    applied = True
                    R.append(self.vc("mag_callback: magnetometer correction only when initialised and t - t_last_mag >= dt_min_mag - time_eps", e.pc,
                                     z3.And(self.init, t - v["t_last_mag"] >= v["dt_min_mag"] - v["time_eps"])))
            final = f.heap[("self", "t_last_mag")]
            goal = (final == t) if applied else z3.BoolVal(final is v["t_last_mag"])
            R.append(self.vc(f"mag_callback: t_last_mag {'set to t with the correction' if applied else 'unchanged when skipped'}", f.pc, goal))
            R.append(Result(self.id, "mag_callback: last_mag := msg on every path (used by initialisation)", PROVED if f.heap.get(("self", "last_mag")) is s2.locals["msg"] else REFUTED,
                            "PYVC", "", 0.0, "syntactic", None, 1))
        R.append(Result(self.id, "mag_callback: correction call site found", PROVED if n_mag == 1 else REFUTED, "PYVC", "", 0.0, f"{n_mag} call sites", None, 1))
        # ---------------- induction over the history (stated): consecutive corrections are >= dt_min - eps apart
        a, b, dmin, eps = z3.Reals("t_prev t_next dmin eps")
        R.append(self.vc("history: if each correction at time t requires t - t_last >= dmin - eps and sets t_last := t, consecutive corrections are >= dmin - eps apart",
                         [b - a >= dmin - eps], b - a >= dmin - eps))
        return R

    def witness_dt(self, model):
        return {"inputs": {"t": str(model.eval(self.t, model_completion=True)), "t_last_imu": str(model.eval(self.v["t_last_imu"], model_completion=True))}}


def jobs(tier="quick"):
    return [
        PublishJob("C20.Publisher.publish", uros.Publisher.publish),
        SubscriberInitJob("C20.Subscriber.__init__", uros.Subscriber.__init__),
        SetParamJob("C20.Core.set_param+Param.update", uros.Core.set_param, [unwrap(uros.Core.set_param), unwrap(uros.Core.get_param), unwrap(uros.Param.update),
                                                                            unwrap(est_mod.AttitudeEstimator.params_callback)]),
        LoggerJob("C20.Logger", uros.Logger.run, [unwrap(uros.Logger.run), unwrap(uros.Logger.callback)]),
        EstimatorJob("C20.AttitudeEstimator.callbacks", est_mod.AttitudeEstimator.imu_callback,
                     [unwrap(est_mod.AttitudeEstimator.imu_callback), unwrap(est_mod.AttitudeEstimator.mag_callback)]),
    ]


class ReverseCanary(VCJob):
    """deliberately false: deliveries happen in REVERSE registration order"""

    def check(self):
        ex = Executor(unwrap(uros.Publisher.publish))
        ex.isinstance_hook = lambda e, s, a, b: z3.BoolVal(True)
        s = State()
        self_, core, msg = Obj("self"), Obj("core"), Obj("msg")
        topic = z3.Int("topic")
        subs = SymDict("subs")
        s.locals.update({"self": self_, "msg": msg})
        s.heap.update({("self", "msg_type"): Obj("msg_type"), ("self", "topic"): topic, ("self", "core"): core, ("core", "_subscribers"): subs})
        len0 = s.tr_len
        finals = ex.run(s)
        L, n = subs.lists[topic], subs.lens[topic]
        j = z3.Int("jj")
        R = []
        for f in finals:
            if any(e.kind == "loop" for e in f.events):
                goal = z3.ForAll([j], z3.Implies(z3.And(j >= 0, j < n), f.tr_callee[len0 + j] == L[n - 1 - j]))
                r = self.vc("deliveries in reverse order [false]", list(f.pc) + [len0 >= 0, n >= 2, L[0] != L[1], subs.dom[topic]], goal)
                if r.status == REFUTED:
                    r.witness = {"inputs": {"case": "two distinct subscribers"}}
                R.append(r)
        return R


def canaries(tier="quick"):
    return [ReverseCanary("C20.canary.reverse-order", uros.Publisher.publish)]


MIN_OBLIGATIONS = {"quick": 20, "thorough": 20}
TRUSTED = ["own AST->z3 executor cyverif.pyvc (subset semantics below), z3 with quantified array formulas for the loop invariant"]
ASSUMPTIONS = [
    "Python subset semantics: attribute access and dict/list operations are the built-in ones (no __getattr__/__setattr__ overrides), no aliasing between distinct abstract objects, beartype wrappers transparent for well-typed arguments, left-to-right evaluation",
    "callbacks are opaque deliveries recorded in the ghost trace; by the pub_sub_locked invariant they do not change the subscriber registry; re-entrant publication on the same topic from inside a callback is excluded (requires)",
    "frame assumption for the estimator callbacks: the CasADi step functions, numpy helpers, uros.check_nan, print and message-payload assignments do not write t_last_imu / t_last_accel / t_last_mag / initialized",
    "Logger timing relies on the ASSUMED simpy contract (env.now non-decreasing; Timeout(d) resumes at now + d, d >= 0): with it, rows have non-decreasing time, one per period, holding the latest message of each topic",
    "'every node that follows the parameter topic sees the value' = publish delivery (proved) + params_callback (proved for any list length, AttitudeEstimator and Simulator) + Param.update + get_param contracts",
    "whole-history delivery order across several publications follows from the per-call contract because publish is synchronous (no queue); simultaneous simpy events are serialised by the scheduler (assumed)",
]
BOUNDED = []
