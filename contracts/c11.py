"""C11 — each attitude-estimator step keeps the state valid and the covariance consistent (eqs()['mrp']).

Modular: util.rk4, util.sqrt_covariance_predict, util.sqrt_correct are replaced by their contracts (C10) at the call
sites of predict / correct_*; SO3Mrp.right_jacobian and shadow_if_necessary are traced through (their contracts are
C05 / C07 obligations).  Frame conditions of the rejection path are decided structurally on the real functions."""
from __future__ import annotations

import contextlib
import io

import casadi as ca

from cyverif import ir
from cyverif.harness import ASSUMED, Ob, PROVED, REFUTED, UNDECIDED, Result, cells
from cyverif.harness import Trace as _Trace
from cyverif.sorts import Angle, Composite, Const, Free, LowerTri, Pos, UnitQuat
from . import spec
from .c12 import stub_sqrt_correct, x_sort, accepted
from .c14 import derive_with_stub, intercept_function

with contextlib.redirect_stdout(io.StringIO()):
    from cyecca.estimate.attitude.algorithms import mrp as est
    from cyecca.estimate.attitude.algorithms import common
from cyecca import util

CLOSED = cells(series="closed")


# ---------------------------------------------------------------------------------------------------
def predict_trace():
    calls = {}

    @contextlib.contextmanager
    def stubs(store, Y):
        real_rk4, real_scp = util.rk4, util.sqrt_covariance_predict
        n = {"rk4": 0}

        def rk4(f, t, y, h):
            k = n["rk4"]
            n["rk4"] += 1
            ysym = ca.SX.sym(f"ysym{k}", y.sparsity())
            fy = f(t, ysym)
            # record: derivative field evaluated at a fresh state, the state and the step handed over
            store.extend([ca.substitute(fy, ysym, y) if k == 0 else fy, ca.SX(y), ca.SX(h)])
            calls[k] = ysym
            if k == 0:
                return ca.SX(Y[0:6])
            return ca.tril(ca.reshape(Y[6:42], 6, 6))

        def scp(W, F, Q):
            store.extend([ca.SX(W), ca.SX(F), ca.SX(Q)])
            return ca.reshape(Y[42:78], 6, 6)

        util.rk4, util.sqrt_covariance_predict = rk4, scp
        try:
            yield
        finally:
            util.rk4, util.sqrt_covariance_predict = real_rk4, real_scp

    def b(t, x, W, omega_m, std_gyro, sn_gyro_rw, dt, Y):
        Yi = ca.SX.sym("Yi", 78)
        store = []
        with stubs(store, Yi), intercept_function() as rec, contextlib.redirect_stdout(io.StringIO()):
            est.predict()
        ins, outs = rec["predict"]
        # the covariance field is built inside an inner Function of (x, W, ...): its captured args are in terms of est.W etc.
        free = [Yi] + [calls[k] for k in sorted(calls) if k == 1]
        aux = ca.Function("aux", ins + free, outs + store, {"allow_free": False})
        Wsym = ca.SX.sym("Wy", ca.Sparsity.lower(6))
        res = aux(t, x, W, omega_m, std_gyro, sn_gyro_rw, dt, Y, W)
        x1, W1 = res[0], res[1]
        xdot, y0, h0 = res[2], res[3], res[4]
        Wc, Fc, Qc = res[5], res[6], res[7]
        field2, y1, h1 = res[8], res[9], res[10]
        r, bg = x[0:3], x[3:6]
        n2 = ca.dot(r, r)
        B = 0.25 * ((1 - n2) * spec.I(3) + 2 * spec.hat3(r) + 2 * r @ r.T)
        C = spec.R_mrp(r)
        F_spec = ca.vertcat(ca.horzcat(spec.Z(3, 3), -C), spec.Z(3, 6))
        srw = sn_gyro_rw * sn_gyro_rw / dt
        Q_spec = ca.diag(ca.vertcat(std_gyro ** 2, std_gyro ** 2, std_gyro ** 2, srw, srw, srw))
        x1raw = Y[0:6]
        nr = ca.dot(x1[0:3], x1[0:3])
        nraw = ca.dot(x1raw[0:3], x1raw[0:3])
        return {"xdot": xdot, "xdot_spec": ca.vertcat(B @ (omega_m - bg), ca.SX.zeros(3, 1)), "y0": y0, "x": x, "h0": h0, "h1": h1, "dt": dt,
                "Wc": Wc, "W": W, "Fc": Fc, "F_spec": F_spec, "Qc": Qc, "Q_spec": Q_spec, "y1": y1,
                "field2": field2, "field2_spec": ca.tril(ca.reshape(Y[42:78], 6, 6)),
                "bias1": x1[3:6], "bias_raw": x1raw[3:6], "M_r1": spec.R_mrp(x1[0:3]), "M_raw": spec.R_mrp(x1raw[0:3]),
                "norm_r1": nr, "one": ca.SX.ones(1, 1), "W1": W1, "W1_spec": ca.tril(ca.reshape(Y[6:42], 6, 6))}

    ins = [Free("t", 1), x_sort("x"), LowerTri("W", 6), Free("omega_m", 3), Pos("std_gyro"), Pos("sn_gyro_rw"), Pos("dt"), Free("Y", 78, scale=1.5)]
    return _Trace("C11.predict.call-sites", ins, b, [
        Ob("rk4 #1 integrates the MRP kinematics: field = [B(r)(omega_m - b); 0]", "xdot", "xdot_spec"),
        Ob("rk4 #1 starts from the current state", "y0", "x"), Ob("rk4 #1 step = dt", "h0", "dt"),
        Ob("sqrt_covariance_predict receives the current factor W", "Wc", "W"),
        Ob("sqrt_covariance_predict receives F = Jacobian of the right-invariant error dynamics at eta = 0 = [[0, -C_nb],[0, 0]]", "Fc", "F_spec"),
        Ob("sqrt_covariance_predict receives Q = diag(std_gyro^2 I, (sn_gyro_rw^2/dt) I)", "Qc", "Q_spec"),
        Ob("rk4 #2 integrates tril(sqrt_covariance_predict(W, F, Q)) (callee result unchanged)", "field2", "field2_spec"),
        Ob("rk4 #2 starts from W", "y1", "W"), Ob("rk4 #2 step = dt", "h1", "dt"),
        Ob("gyro bias of the result = RK4 result (frame)", "bias1", "bias_raw"),
        Ob("attitude of the result is the RK4 result up to the shadow switch (same rotation)", "M_r1", "M_raw"),
        Ob("returned MRP has norm <= 1", "norm_r1", "one", kind="le"),
        Ob("returned covariance factor = RK4 result of the lower-triangular field", "W1", "W1_spec")],
        functions=[est.predict], budget_s=600, definedness=False,
        sample_filter=lambda v: sum(v["Y"][i][0] ** 2 for i in range(3)) > 1e-2,
        lemmas=["callee-contract C10.rk4 (4th order)", "callee-contract C10.sqrt_covariance_predict", "callee-contract C05.SO3Mrp.kinematic", "callee-contract C07.Mrp.shadow_if_necessary"],
        note="fourth-order accuracy of the attitude = rk4 contract (C10) applied to the kinematic field proved here; opaque RK4 results")


class Structural:
    """structural obligations on the real (unstubbed) estimator Functions"""

    def __init__(self):
        self.id = "C11.structure"
        self.functions = [est.correct_mag, est.correct_accel, est.predict, est.initialize]

    def run(self, seed=0):
        with contextlib.redirect_stdout(io.StringIO()):
            eqs = est.eqs()
        R = []

        def add(ob, ok, detail):
            R.append(Result(self.id, ob, PROVED if ok else REFUTED, "STRUCT", "", 0.0, detail, None if ok else {"inputs": {}}, 1))

        # predict: W1 structurally lower triangular
        sp = eqs["predict"].sparsity_out(1)
        rows, cols = sp.get_triplet()
        up = [(i, j) for i, j in zip(rows, cols) if j > i]
        add("predict: returned covariance factor is structurally lower triangular", not up and sp.size1() == 6, f"nnz={sp.nnz()} strictly-upper nonzeros={up}")
        # corrections: rejection frame.  out = if_else(code == 0, accepted, input)  with the SAME node as the error_code output
        for name in ("correct_mag", "correct_accel"):
            f = eqs[name]
            ins = {f.name_in(i): ca.SX.sym(f.name_in(i), f.sparsity_in(i)) for i in range(f.n_in())}
            outs = f(*ins.values())
            names = [f.name_out(i) for i in range(f.n_out())]
            od = dict(zip(names, outs))
            g, on, _ = ir.extract(ins, od)
            code = on["error_code"][0][0]
            xk, Wk = names[0], names[1]
            bad = []
            cnt = 0
            for key, inp in ((xk, "x"), (Wk, "W")):
                M = on[key]
                for i, row in enumerate(M):
                    for j, n in enumerate(row):
                        if n is None:
                            continue
                        cnt += 1
                        if not self._guarded(g, n, code, (inp, i, j)):
                            bad.append((key, i, j))
            add(f"{name}: non-zero error code => state and covariance factor are the inputs (x_out = 0 + x, W_out = 0 + W entrywise)", not bad,
                f"{cnt} entries have the form if_else(error_code == 0, accepted, input[i,j]) with error_code the returned node" if not bad else f"entries not of that form: {bad[:6]}")
            # error code range
            vals = self._leaves(g, code)
            ok = vals is not None and vals <= ({0, 1, 2} if name == "correct_mag" else {0, 1})
            add(f"{name}: error code in its documented set", ok, f"possible values {sorted(vals) if vals is not None else 'not a constant selection'}")
        f = eqs["initialize"]
        ins = {f.name_in(i): ca.SX.sym(f.name_in(i), f.sparsity_in(i)) for i in range(f.n_in())}
        outs = f(*ins.values())
        g, on, _ = ir.extract(ins, {"x0": outs[0], "code": outs[1]})
        vals = self._leaves(g, on["code"][0][0])
        add("initialize: error code in {0,1,2,3}", vals is not None and vals <= {0, 1, 2, 3}, f"possible values {sorted(vals) if vals else vals}")
        # initialize: on a non-zero code the state is exactly zero (never NaN): x0 = if_else(code == 0, ., 0)
        bad = []
        for i in range(6):
            n = on["x0"][i][0]
            if n is None:
                continue
            if not self._guarded_zero(g, n, on["code"][0][0]):
                bad.append(i)
        add("initialize: non-zero error code => returned state is exactly zero (the NaN of the rejected branch is masked)", not bad, f"entries not masked: {bad}")
        return R

    @staticmethod
    def _is_eq0(g, c, code):
        if g.op(c) != "EQ":
            return False
        a, b = g.args(c)
        z = lambda n: g.op(n) == "CONST" and g.payload(n) == 0
        return (a == code and z(b)) or (b == code and z(a))

    def _guarded(self, g, n, code, payload):
        """n == IF_ELSE_ZERO(code==0, acc) + IF_ELSE_ZERO(NOT(code==0), INPUT payload)"""
        if g.op(n) != "ADD":
            return False
        a, b = g.args(n)
        for u, v in ((a, b), (b, a)):
            if g.op(u) == "IF_ELSE_ZERO" and g.op(v) == "IF_ELSE_ZERO":
                cu, cv = g.args(u)[0], g.args(v)[0]
                if self._is_eq0(g, cu, code) and g.op(cv) == "NOT" and g.args(cv)[0] == cu:
                    x = g.args(v)[1]
                    if g.op(x) == "INPUT" and g.payload(x) == payload:
                        return True
        return False

    def _guarded_zero(self, g, n, code):
        if g.op(n) == "IF_ELSE_ZERO":
            return self._is_eq0(g, g.args(n)[0], code)
        return False

    def _leaves(self, g, n):
        op = g.op(n)
        if op == "CONST":
            v = g.payload(n)
            return {int(v)} if not isinstance(v, str) and v.denominator == 1 else None
        if op == "ADD":
            a, b = g.args(n)
            la, lb = self._leaves(g, a), self._leaves(g, b)
            if la is None or lb is None:
                return None
            # exactly one of the two if_else_zero terms is active; the inactive one contributes 0
            return (la | lb) - ({0} if (0 not in la or 0 not in lb) and not (la == {0} or lb == {0}) else set()) | ({0} if la == {0} or lb == {0} else set())
        if op == "IF_ELSE_ZERO":
            return self._leaves(g, g.args(n)[1])
        if op in ("LT", "LE", "EQ", "NE", "NOT", "AND", "OR"):
            return {0, 1}
        return None

    def replay(self, w):
        bad = [r for r in self.run() if r.status != PROVED]
        return bool(bad), "; ".join(r.ob + ": " + r.detail for r in bad)


def correct_callsite_traces():
    T = []
    for name, derive, ny in (("correct_mag", est.correct_mag, 1), ("correct_accel", est.correct_accel, 2)):
        nY = 36 + 6 * ny + ny * ny
        n_in = 6 if name == "correct_mag" else 8

        def build(name=name, derive=derive, ny=ny, nY=nY, n_in=n_in, **kw):
            Yi = ca.SX.sym("Yi", nY)
            aux, n_out, n_cap = derive_with_stub(derive, name, stub_sqrt_correct, Yi)
            res = aux(*[kw[f"i{k}"] for k in range(n_in)], kw["Y"])
            W_out = res[1]
            Rs, H, Wc = res[n_out], res[n_out + 1], res[n_out + 2]
            H_spec = ca.SX.zeros(ny, 6)
            if ny == 1:
                H_spec[0, 2] = 1
            else:
                H_spec[0, 0] = 1
                H_spec[1, 1] = 1
            return {"Wc": Wc, "W": kw["i1"], "H": H, "H_spec": H_spec, "W_out": W_out, "Wp": ca.tril(ca.reshape(kw["Y"][0:36], 6, 6)), "Rs": Rs}

        if name == "correct_mag":
            sorts = [x_sort("i0"), LowerTri("i1", 6), Free("i2", 3), Free("i3", 1), Pos("i4"), Pos("i5")]
        else:
            sorts = [x_sort("i0"), LowerTri("i1", 6), Free("i2", 3), Pos("i3"), Free("i4", 3), Pos("i5"), Pos("i6"), Pos("i7")]
        upper = [(i, j) for i in range(6) for j in range(6) if j > i]
        T.append(_Trace(f"C11.{name}.call-site", sorts + [Free("Y", nY)], build, [
            Ob("sqrt_correct receives the current factor W", "Wc", "W"),
            Ob("sqrt_correct receives the selector H of the corrected error components", "H", "H_spec"),
            Ob("accepted correction returns the callee's W+ unchanged (so P - P+ = K S K^T >= 0 by C10)", "W_out", "Wp"),
            Ob("accepted covariance factor structurally lower triangular", "W_out", None, kind="structural_zero", entries=upper)],
            functions=[derive], decide=accepted, definedness=False, budget_s=300,
            lemmas=["callee-contract C10.sqrt_correct (W+W+^T = (I-KH)P = P - K S K^T, W+ lower triangular)"]))
    return T


def initialize_trace():
    """exactness of the TRIAD-style initialisation: g_b = C^T(-g e3), B_b = C^T B_n(decl, incl) => the matrix handed to
    SO3Mrp.from_Matrix is exactly C_nb (accepted cell).  from_Matrix and the shadow switch by contract (C07: same rotation,
    norm <= 1), so the returned MRP represents exactly the attitude that produced the measurements."""
    from cyecca.lie.group_so3 import SO3MrpLieGroup, SO3Mrp

    @contextlib.contextmanager
    def stubs(store, Y):
        real = SO3MrpLieGroup.from_Matrix

        def stub(self, arg):
            store.append(arg)
            return SO3Mrp.elem(Y)

        SO3MrpLieGroup.from_Matrix = stub
        try:
            yield
        finally:
            SO3MrpLieGroup.from_Matrix = real

    def b(q, g, mag_str, decl, incl, Y):
        Yi = ca.SX.sym("Yi", 3)
        aux, n_out, n_cap = derive_with_stub(est.initialize, "init", stubs, Yi)
        assert n_cap == 1
        C = spec.R_quat(q)
        g_b = C.T @ ca.vertcat(0, 0, -g)
        B_n = spec.Rz(decl) @ spec.Ry(-incl) @ ca.vertcat(mag_str, 0, 0)
        B_b = C.T @ B_n
        x0, code, R0 = aux(g_b, B_b, decl, Y)
        return {"R0": R0, "C": C, "b0": x0[3:6], "M_r0": spec.R_mrp(x0[0:3]), "M_Y": spec.R_mrp(Y), "norm": ca.dot(x0[0:3], x0[0:3]), "one": ca.SX.ones(1, 1)}

    def pol(low, n):
        g = low.g
        op, args, _ = g.nodes[n]
        if op == "EQ":  # init_ret == 0: accepted
            return True
        return CLOSED(low, n)

    return _Trace("C11.initialize.exact", [UnitQuat("q"), Pos("g"), Pos("mag_str"), Angle("decl", 4, -0.5, 0.5), Angle("incl", 1, -1.0, 1.0, cos_positive=True), Free("Y", 3, scale=1.5)], b, [
        Ob("accepted initialisation hands exactly the true attitude matrix to from_Matrix: R0 = C_nb", "R0", "C"),
        Ob("returned attitude = from_Matrix result up to the shadow switch (same rotation)", "M_r0", "M_Y"),
        Ob("initial gyro bias = 0", "b0", None), Ob("returned MRP has norm <= 1", "norm", "one", kind="le")],
        functions=[est.initialize], decide=pol, budget_s=600, max_paths=64, smt_timeout=20, definedness=False,
        sample_filter=lambda v: sum(v["Y"][i][0] ** 2 for i in range(3)) > 1e-2,
        lemmas=["callee-contract C07.Mrp.from_Matrix", "callee-contract C07.Mrp.shadow_if_necessary"],
        note="accepted cell (error code 0); requires magnetic inclination in (-90, 90) deg (cos incl > 0)")


class GuardedOps:
    """'an accepted call returns finite values, never NaN': every division (and asin / acos / sqrt) of the real step function
    whose divisor does not involve the covariance factor W must be safe wherever its value is USED: the conditions of the
    if_else_zero nodes that dominate every use (cyverif.fperr.use_guards), together with the accept condition
    error_code == 0 and the requires on the inputs, must exclude divisor = 0 (argument outside the domain).  Each query is
    small (only the condition and divisor sub-graphs reach z3).  A satisfiable query is a VIOLATION only if the model, or one
    of a few special inputs, makes the real function return NaN / inf with error code 0; queries the solver cannot decide
    and divisors inside the callee util.sqrt_correct (functions of W; contract C10 for well-conditioned factors) are listed
    as assumptions."""

    def __init__(self, name, derive, in_names, requires, specials):
        self.id = f"C11.{name}.guarded-operations"
        self.name, self.derive, self.in_names, self.requires, self.specials = name, derive, in_names, requires, specials
        self.functions = [derive]
        self.lemmas = []
        self.assumptions = []

    def run(self, seed=0):
        import math
        import time as _t
        import z3
        from cyverif import fperr, ir, smt
        t0 = _t.time()
        R = []
        with contextlib.redirect_stdout(io.StringIO()):
            F = self.derive()
        ins = {n: ca.SX.sym(n, F.sparsity_in(i)) for i, n in enumerate(self.in_names)}
        outs_sx = F(*ins.values())
        outs_sx = list(outs_sx) if isinstance(outs_sx, (list, tuple)) else [outs_sx]
        dense_ins = {}
        sub_from, sub_to = [], []
        for n, sx in ins.items():  # the extractor wants dense symbolic inputs
            d = ca.SX.sym(n, *sx.shape)
            dense_ins[n] = d
            sub_from.append(sx)
            sub_to.append(ca.project(d, sx.sparsity()) if sx.nnz() != d.nnz() else d)
        outs_sx = ca.substitute(outs_sx, sub_from, sub_to)
        names = [F.name_out(i) for i in range(F.n_out())]
        g, on, n_instr = ir.extract(dense_ins, {nm: o for nm, o in zip(names, outs_sx)})
        roots = [x for nm in names for row in on[nm] for x in row if x is not None]
        code = on["error_code"][0][0]
        guards = fperr.use_guards(g, roots)
        anc = sorted(g.ancestors(roots))
        zin = {}
        for n, d in dense_ins.items():
            for i in range(d.shape[0]):
                for j in range(d.shape[1]):
                    zin[(n, i, j)] = z3.Real(f"{n}_{i}_{j}")
        enc = smt.IRSMT(g, zin)

        def hook(self_, n):  # inverse trig / trig by weak axioms (enough for "argument != 0" style guards)
            op, args, _ = g.nodes[n]
            u = self_.e(args[0])
            v = self_.fresh(op.lower())
            if op == "ASIN":
                self_.side += [v * u >= 0, (u == 0) == (v == 0), z3.If(u >= 0, v >= u, v <= u), v <= 2, v >= -2]
            elif op == "ACOS":
                self_.side += [v >= 0, v <= 4, (u == 1) == (v == 0)]
            elif op in ("SIN", "COS"):
                pair = trig.get(args[0])
                if pair is None:
                    pair = trig[args[0]] = (self_.fresh("sin"), self_.fresh("cos"))
                    self_.side.append(pair[0] * pair[0] + pair[1] * pair[1] == 1)
                return pair[0] if op == "SIN" else pair[1]
            elif op in ("TAN", "ATAN"):
                pass
            else:
                return None
            return v

        trig = {}
        enc.hook = hook
        req = self.requires(zin)
        accept = (enc.e(code) == 0) if code is not None else z3.BoolVal(True)
        n_safe = n_contract = 0
        open_items, bad = [], []
        for n in anc:
            op, args, _ = g.nodes[n]
            if op not in ("DIV", "INV", "ASIN", "ACOS"):
                continue
            tgt = args[1] if op == "DIV" else args[0]
            if g.op(tgt) == "CONST":
                continue
            sup = g.support([tgt])
            if any(p[0] == "W" for p in sup):
                n_contract += 1
                continue
            try:
                cond = [enc.b(c) for c in guards.get(n, ())]
                tz = enc.e(tgt)
                viol = (tz == 0) if op in ("DIV", "INV") else z3.Or(tz > 1, tz < -1)
                sol = z3.Solver()
                sol.set("timeout", 8000)
                for a_ in req + enc.side + cond + [accept, viol]:
                    sol.add(a_)
                r_ = sol.check()
            except NotImplementedError as ex:
                open_items.append(f"{op} node {n}: not translated ({ex})")
                continue
            if r_ == z3.unsat:
                n_safe += 1
            elif r_ == z3.sat:
                m = sol.model()
                vin = {nm: [[smt.model_value(m, zin[(nm, i, j)]) or 0.0 for j in range(d.shape[1])] for i in range(d.shape[0])] for nm, d in dense_ins.items()}
                bad.append((op, n, vin))
            else:
                open_items.append(f"{op} node {n}: solver unknown")
        # replay candidates on the real function
        def nonfinite(vin):
            if "W" in vin:
                vin = dict(vin)
                vin["W"] = [[(0.05 if i == j else 0.0) for j in range(6)] for i in range(6)]
            res = F(*[ca.DM(vin[n]) for n in self.in_names])
            res = list(res) if isinstance(res, (list, tuple)) else [res]
            vals = {nm: [float(x) for x in ca.DM(r_).full().ravel()] for nm, r_ in zip(names, res)}
            if vals["error_code"][0] == 0 and any(math.isnan(x) or math.isinf(x) for nm in names for x in vals[nm]):
                return vals
            return None

        witness = None
        for op, n, vin in bad:
            try:
                vals = nonfinite(vin)
            except Exception:
                vals = None
            if vals:
                witness = {"inputs": vin, "outputs": vals, "node": f"{op} #{n}"}
                break
        if witness is None:
            for vin in self.specials():
                try:
                    vals = nonfinite(vin)
                except Exception:
                    vals = None
                if vals:
                    witness = {"inputs": vin, "outputs": vals, "node": "special input"}
                    break
        nm = f"{self.name}: error code 0 => every returned value is finite (divisions / asin / acos outside the callee are guarded wherever their value is used)"
        detail = (f"{n_safe} operations proved safe under their use-guards + accept condition; {n_contract} inside util.sqrt_correct (functions of W: callee contract); "
                  f"{len(bad)} with a satisfiable zero-divisor query; {len(open_items)} not decided: {open_items[:4]}")
        if witness is not None:
            R.append(Result(self.id, nm, REFUTED, "SMT+EVAL", "", _t.time() - t0, detail + " | the real function returns a non-finite value with error code 0", witness, 1))
        elif bad:
            # the weak trig / inverse-trig axioms admit models the real functions do not have: not decided, listed as an
            # unchecked assumption (never a violation without a non-finite output of the real function)
            R.append(Result(self.id, nm, ASSUMED, "SMT", "", _t.time() - t0, detail + " | none of the models reproduces a non-finite output on the real function: "
                            + "; ".join(f"{op} node {n}" for op, n, _ in bad[:6])))
        else:
            R.append(Result(self.id, nm, PROVED, "SMT", "", _t.time() - t0, detail, None, n_safe))
        self.assumptions = [f"C11.{self.name}: {x}" for x in open_items[:8]]
        return R

    def replay(self, w):
        rs = self.run()
        return rs[0].status == REFUTED, rs[0].detail[:300]


def guarded_jobs():
    import z3

    def req_accel(z):
        return [z[("g", 0, 0)] >= 2, z[("std_accel", 0, 0)] > 0, z[("std_accel_omega", 0, 0)] >= 0, z[("beta_accel_c", 0, 0)] > 0]

    def sp_accel():
        base = {"x": [[0.0]] * 6, "W": None, "g": [[9.8]], "omega_m": [[0.0]] * 3, "std_accel": [[0.1]], "std_accel_omega": [[0.01]], "beta_accel_c": [[9.0]]}
        out = []
        for y in ([0, 0, -9.8], [0, 0, -9.0], [0, 0, 9.8], [0, 0, 0], [1e-300, 0, -9.8]):
            for x in ([0.0] * 6, [0, 0, 0.4, 0, 0, 0], [0, 0, -1.0, 0.01, 0, 0]):
                d = dict(base)
                d["y_b"] = [[v] for v in y]
                d["x"] = [[v] for v in x]
                out.append(d)
        return out

    def req_mag(z):
        return [z[("std_mag", 0, 0)] > 0, z[("beta_mag_c", 0, 0)] > 0]

    def sp_mag():
        out = []
        for y in ([1, 0, 0], [0, 0, 1], [0, 0, 0], [0, 1, 0], [-1, 0, 0]):
            for x in ([0.0] * 6, [0.4142, 0, 0, 0, 0, 0], [0, 0.4142, 0, 0, 0, 0]):
                out.append({"x": [[v] for v in x], "W": None, "y_b": [[v] for v in y], "decl": [[0.1]], "std_mag": [[0.05]], "beta_mag_c": [[7.0]]})
        return out

    def req_init(z):
        return []

    def sp_init():
        out = []
        for g_b in ([0, 0, -9.8], [0, 0, 9.8], [9.8, 0, 0]):
            for B in ([0.2, 0, 0.4], [0, 0, 1.0], [0, 0, -1.0], [0, 0, 0], [1e-9, 0, 1.0], [0, 0, 0.5], [0, 0, -0.5]):
                out.append({"g_b": [[v] for v in g_b], "B_b": [[v] for v in B], "decl": [[0.2]]})
        return out

    return [GuardedOps("correct_accel", est.correct_accel, ["x", "W", "y_b", "g", "omega_m", "std_accel", "std_accel_omega", "beta_accel_c"], req_accel, sp_accel),
            GuardedOps("correct_mag", est.correct_mag, ["x", "W", "y_b", "decl", "std_mag", "beta_mag_c"], req_mag, sp_mag),
            GuardedOps("initialize", est.initialize, ["g_b", "B_b", "decl"], req_init, sp_init)]


def traces(tier="quick"):
    T = [predict_trace()] + correct_callsite_traces()
    T.append(initialize_trace())
    return T


def jobs(tier="quick"):
    return [Structural()] + guarded_jobs()


def canaries(tier="quick"):
    """engine canary: the initialisation trace with a deliberately false postcondition (R0 = C_nb^T) must be refuted"""
    t = initialize_trace()
    inner = t.build

    def b(**kw):
        d = inner(**kw)
        return {"R0": d["R0"], "Ct": d["C"].T}

    return [_Trace("C11.canary.initialize-transposed", t.inputs, b, [Ob("R0 = C_nb^T [false]", "R0", "Ct")], decide=t.decide, budget_s=600, max_paths=64,
                   definedness=False, sample_filter=t.sample_filter)]


MIN_OBLIGATIONS = {"quick": 20, "thorough": 20}
TRUSTED = ["A-GRAPH, A-REAL, own ring engine (see C01)", "structural matcher for if_else(error_code == 0, accepted, input)"]
ASSUMPTIONS = ["modular: util.rk4, util.sqrt_covariance_predict, util.sqrt_correct by contract (C10); SO3Mrp.right_jacobian (C05), shadow_if_necessary (C07)",
               "rejection frame is equality over the reals: CasADi's if_else computes 0 + x, which maps -0.0 to +0.0",
               "finiteness of accepted calls (guarded-operations obligations) is decided in REAL arithmetic for the operations outside util.sqrt_correct: a rounding error that pushes an asin / acos argument "
               "over +-1 or turns a tiny divisor into 0 is not modelled; divisions inside util.sqrt_correct are finite under its contract for well-conditioned factors (C10)",
               "covariance monotonicity P+ <= P is the C10 identity P - P+ = K S K^T at the proved call site"]
