"""Catalogue of the groups exposed by cyecca.lie, with for each: the element sort (the `requires`
of every contract quantified over group elements), the independent spec of its matrix form and
of its algebra's hat map."""
from __future__ import annotations

import casadi as ca

import cyecca.lie as lie
from cyecca.lie.group_so3 import SO3Quat, SO3Mrp, SO3Dcm, SO3EulerB321, so3
from cyecca.lie.group_se3 import SE3Quat, SE3Mrp, se3, SE3LieGroup
from cyecca.lie.group_se23 import SE23Quat, SE23Mrp, se23, SE23LieGroup
from cyecca.lie.group_so2 import SO2, so2
from cyecca.lie.group_se2 import SE2, se2
from cyecca.lie.group_rn import R2, R3, r2, r3

from cyverif.sorts import Angle, Angles, Composite, DcmOfQuat, Free, RotVec, UnitQuat
from . import spec


class GroupInfo:
    def __init__(self, name, group, sort, M_spec, alg_hat, alg_vee, n_alg, kind, faithful=True, so3=None):
        self.name = name
        self.group = group
        self.sort = sort  # callable name -> Sort
        self.M_spec = M_spec  # callable param SX -> matrix SX
        self.alg_hat = alg_hat
        self.alg_vee = alg_vee
        self.n_alg = n_alg
        self.kind = kind  # so2, se2, rn, so3, se3, se23, product
        self.faithful = faithful  # parameters determined by the matrix (no double cover / aliasing)
        self.so3 = so3  # name of SO3 parameterisation


def so3_sort(rep):
    return {
        "Quat": lambda n: UnitQuat(n),
        "Mrp": lambda n: Free(n, 3, scale=0.9),
        "Dcm": lambda n: DcmOfQuat(n),
        "Euler": lambda n: Angles(n, 3, ranges=[(-3.0, 3.0), (-1.4, 1.4), (-3.0, 3.0)]),
    }[rep]


def so3_spec(rep):
    return {"Quat": spec.R_quat, "Mrp": spec.R_mrp, "Dcm": spec.R_dcm, "Euler": spec.R_euler_b321}[rep]


SO3_GROUPS = {"Quat": SO3Quat, "Mrp": SO3Mrp, "Dcm": SO3Dcm, "Euler": SO3EulerB321}


def se3_M(rep):
    Rs = so3_spec(rep)

    def M(p):
        p = ca.SX(p)
        return ca.vertcat(ca.horzcat(Rs(p[3:]), p[0:3]), ca.horzcat(spec.Z(1, 3), spec.I(1)))

    return M


def se23_M(rep):
    Rs = so3_spec(rep)

    def M(x):
        x = ca.SX(x)
        # param = (p, v, R); matrix [[R, v, p],[0, I2]]
        return ca.vertcat(ca.horzcat(Rs(x[6:]), x[3:6], x[0:3]), ca.horzcat(spec.Z(2, 3), spec.I(2)))

    return M


def se2_M(x):
    x = ca.SX(x)
    return ca.vertcat(ca.horzcat(spec.rot2(x[2]), x[0:2]), ca.horzcat(spec.Z(1, 2), spec.I(1)))


def rn_M(n):
    def M(x):
        x = ca.SX(x)
        A = ca.SX.eye(n + 1)
        for i in range(n):
            A[i, n] = x[i]
        return A

    return M


def make_groups():
    G = {}
    G["SO2"] = GroupInfo("SO2", SO2, lambda n: Angle(n), lambda p: spec.rot2(ca.SX(p)[0]), lambda x: spec.hat2(ca.SX(x)[0]),
                         lambda M: M[1, 0], 1, "so2", faithful=False)
    G["SE2"] = GroupInfo("SE2", SE2, lambda n: Composite(n, [Free(n + "_p", 2), Angle(n + "_th")]), se2_M, spec.se2_hat,
                         spec.se2_vee, 3, "se2", faithful=False)
    G["R2"] = GroupInfo("R2", R2, lambda n: Free(n, 2), rn_M(2), lambda x: spec.rn_hat(x, 2), lambda M: spec.rn_vee(M, 2), 2, "rn")
    G["R3"] = GroupInfo("R3", R3, lambda n: Free(n, 3), rn_M(3), lambda x: spec.rn_hat(x, 3), lambda M: spec.rn_vee(M, 3), 3, "rn")
    for rep, grp in SO3_GROUPS.items():
        G["SO3" + rep] = GroupInfo("SO3" + rep, grp, so3_sort(rep), so3_spec(rep), spec.hat3, spec.vee3, 3, "so3",
                                   faithful=(rep in ("Dcm",)), so3=rep)
    se3_groups = {"Quat": SE3Quat, "Mrp": SE3Mrp, "Dcm": SE3LieGroup(SO3=SO3Dcm), "Euler": SE3LieGroup(SO3=SO3EulerB321)}
    se23_groups = {"Quat": SE23Quat, "Mrp": SE23Mrp, "Dcm": SE23LieGroup(SO3=SO3Dcm), "Euler": SE23LieGroup(SO3=SO3EulerB321)}
    for rep in SO3_GROUPS:
        def s3(n, rep=rep):
            return Composite(n, [Free(n + "_p", 3), so3_sort(rep)(n + "_r")])

        def s23(n, rep=rep):
            return Composite(n, [Free(n + "_p", 3), Free(n + "_v", 3), so3_sort(rep)(n + "_r")])

        G["SE3" + rep] = GroupInfo("SE3" + rep, se3_groups[rep], s3, se3_M(rep), spec.se3_hat, spec.se3_vee, 6, "se3", faithful=False, so3=rep)
        G["SE23" + rep] = GroupInfo("SE23" + rep, se23_groups[rep], s23, se23_M(rep), spec.se23_hat, spec.se23_vee, 9, "se23", faithful=False, so3=rep)
    return G


def product_info(names, G):
    """direct product built with `*` on the real group objects"""
    infos = [G[n] for n in names]
    grp = infos[0].group
    for i in infos[1:]:
        grp = grp * i.group
    sizes = [i.group.n_param for i in infos]

    def sort(n):
        return Composite(n, [inf.sort(f"{n}_{k}") for k, inf in enumerate(infos)])

    def M(p):
        p = ca.SX(p)
        off = 0
        blocks = []
        for inf, sz in zip(infos, sizes):
            blocks.append(inf.M_spec(p[off:off + sz]))
            off += sz
        return ca.diagcat(*blocks)

    asz = [i.n_alg for i in infos]

    def hat(x):
        x = ca.SX(x)
        off = 0
        blocks = []
        for inf, sz in zip(infos, asz):
            blocks.append(inf.alg_hat(x[off:off + sz]))
            off += sz
        return ca.diagcat(*blocks)

    return GroupInfo("x".join(names), grp, sort, M, hat, None, sum(asz), "product", faithful=False)


def alg_sort(info, name="y", G=None):
    """algebra-element sort for traces that go through exp: rotation part as a RotVec with base angle
    theta/2 (quaternion, DCM, Euler) or theta/4 (MRP: tan(theta/4)); SO(2)/SE(2) angle as an Angle atom."""
    from cyverif.sorts import RotVec
    k = 4 if info.so3 == "Mrp" else 2
    # sampling range of the rotation angle (used only to look for concrete counterexamples; proofs are for all angles)
    if info.kind == "so3":
        parts = [RotVec(name + "_w", k, 0.2, 5.5)]
    elif info.kind == "se3":
        parts = [Free(name + "_v", 3), RotVec(name + "_w", k, 0.2, 5.5)]
    elif info.kind == "se23":
        parts = [Free(name + "_v", 3), Free(name + "_a", 3), RotVec(name + "_w", k, 0.2, 5.5)]
    elif info.kind == "se2":
        parts = [Free(name + "_v", 2), Angle(name + "_th")]
    elif info.kind == "so2":
        parts = [Angle(name + "_th")]
    elif info.kind == "product":
        parts = [alg_sort(G[n], f"{name}_{i}", G) for i, n in enumerate(info.name.split("x"))]
    else:
        parts = [Free(name + "_", info.n_alg)]
    return Composite(name, parts)
