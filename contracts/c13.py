"""C13 — control allocation: reachable motor commands, feasible demands honoured exactly,
moment priority with the least collective-thrust shift.  Decided by SMT (QF_NRA) over the extracted
piecewise graph of the real `control_allocation` function, for symbolic positive F_max, l, Cm, Ct."""
from __future__ import annotations

import contextlib
import io

import casadi as ca
import z3

from cyverif.harness import Ob
from cyverif.harness import Trace as _Trace
from cyverif.smtjob import Goal, SmtJob
from cyverif.sorts import Free, Pos

with contextlib.redirect_stdout(io.StringIO()):
    from cyecca.models import rdd2


def zmax(xs):
    m = xs[0]
    for x in xs[1:]:
        m = z3.If(x > m, x, m)
    return m


def zmin(xs):
    m = xs[0]
    for x in xs[1:]:
        m = z3.If(x < m, x, m)
    return m


def col(M):
    return [r[0] for r in M]


TOL = 1e-9
from cyverif.sorts import Expr
from cyverif.ring import Frac


def in_range_inputs():
    """requires of the allocator core: the demand is already range-limited (0 <= T <= 4 F_max, |M_i| <= l*4*F_max/2),
    expressed in motor-force units so that the mixer's 1/(4 l), 1/(4 Cm) cancel exactly in the ring:
        T = 4 tau,  M = (4 l u, 4 l v, 4 Cm w),  l = 2 Cm wmax / F_max   (=> M_max/(4 Cm) = wmax)
    with free tau in [0, F_max], u, v in [-F_max/2, F_max/2], w in [-wmax, wmax], and F_max, Cm, Ct, wmax > 0.
    Every positive (F_max, l, Cm) is of this form (wmax := l F_max / (2 Cm))."""
    def gen(low, n):
        return low.R.gen(n)

    def l_fn(low):
        R = low.R
        return [[Frac.of(R, gen(low, "Cm_0") * gen(low, "wmax_0") * 2) / Frac.of(R, gen(low, "F_max_0"))]]

    def T_fn(low):
        return [[Frac.of(low.R, gen(low, "tau_0") * 4)]]

    def M_fn(low):
        R = low.R
        l = l_fn(low)[0][0]
        return [[l * Frac.of(R, gen(low, "u_0") * 4)], [l * Frac.of(R, gen(low, "v_0") * 4)], [Frac.of(R, gen(low, "Cm_0") * gen(low, "w_0") * 4)]]

    def samp_l(rng, vals):
        return [[2 * vals["Cm"][0][0] * vals["wmax"][0][0] / vals["F_max"][0][0]]]

    class JExpr(Expr):
        def __init__(self, name, shape, fn, joint):
            super().__init__(name, shape, fn, None)
            self.sample_joint = joint

    return [Pos("F_max"), Pos("Cm"), Pos("Ct"), Pos("wmax"), Free("tau", 1), Free("u", 1), Free("v", 1), Free("w", 1),
            JExpr("l", (1, 1), l_fn, samp_l),
            JExpr("T", (1, 1), T_fn, lambda rng, vals: [[4 * vals["tau"][0][0]]]),
            JExpr("M", (3, 1), M_fn, lambda rng, vals: [[4 * samp_l(rng, vals)[0][0] * vals["u"][0][0]], [4 * samp_l(rng, vals)[0][0] * vals["v"][0][0]],
                                                         [4 * vals["Cm"][0][0] * vals["w"][0][0]]])]


def alloc_build(F_max, l, Cm, Ct, T, M, **aux):
    f = rdd2.derive_control_allocation()["f_alloc"]
    omega, Fp_sum, F_moment, F_thrust, M_sat = f(F_max, l, Cm, Ct, T, M)
    return {"omega": omega, "Fp_sum": Fp_sum, "F_moment": F_moment, "F_thrust": F_thrust, "M_sat": M_sat}


def requires(V):
    Fm, wmax = V["F_max"][0][0], V["wmax"][0][0]
    tau, u, v, w = (V[k][0][0] for k in ("tau", "u", "v", "w"))
    return [Fm > 0, V["Cm"][0][0] > 0, V["Ct"][0][0] > 0, wmax > 0, tau >= 0, tau <= Fm, u >= -Fm / 2, u <= Fm / 2, v >= -Fm / 2, v <= Fm / 2,
            w >= -wmax, w <= wmax]


def requires_any(V):
    return [V["F_max"][0][0] > 0, V["l"][0][0] > 0, V["Cm"][0][0] > 0, V["Ct"][0][0] > 0]


def geometry(F, l, Cm):
    """spec: total thrust and moments produced by motor forces F (independent of the mixer's inverse)"""
    T = F[0] + F[1] + F[2] + F[3]
    Mx = l * (-F[0] + F[1] + F[2] - F[3])
    My = l * (-F[0] + F[1] - F[2] + F[3])
    Mz = Cm * (-F[0] - F[1] + F[2] + F[3])
    return T, Mx, My, Mz


def g_box(V, O):
    Fm = V["F_max"][0][0]
    return z3.And([z3.And(f >= 0, f <= Fm) for f in col(O["Fp_sum"])])


def n_box(vin, vout):
    Fm = vin["F_max"][0][0]
    return all(-TOL <= f[0] <= Fm + TOL for f in vout["Fp_sum"])


def g_omega(V, O):
    Ct = V["Ct"][0][0]
    return z3.And([z3.And(w >= 0, w * w * Ct == f) for w, f in zip(col(O["omega"]), col(O["Fp_sum"]))])


def n_omega(vin, vout):
    import math
    Ct = vin["Ct"][0][0]
    return all(math.isfinite(w[0]) and w[0] >= 0 and abs(w[0] ** 2 * Ct - f[0]) <= 1e-7 * (1 + abs(f[0])) for w, f in zip(vout["omega"], vout["Fp_sum"]))


def fsum(O):
    return [a + b for a, b in zip(col(O["F_moment"]), col(O["F_thrust"]))]


def pre_feasible(V, O):
    Fm = V["F_max"][0][0]
    return [z3.And([z3.And(f >= 0, f <= Fm) for f in fsum(O)])]


def g_exact(V, O):
    return z3.And([a == b for a, b in zip(col(O["Fp_sum"]), fsum(O))])


def n_exact(vin, vout):
    Fm = vin["F_max"][0][0]
    fs = [a[0] + b[0] for a, b in zip(vout["F_moment"], vout["F_thrust"])]
    if not all(0 <= f <= Fm for f in fs):
        return None
    return all(abs(a[0] - f) <= 1e-9 * (1 + abs(f)) for a, f in zip(vout["Fp_sum"], fs))


def pre_spread(V, O):
    fm = col(O["F_moment"])
    return [zmax(fm) - zmin(fm) <= V["F_max"][0][0]]


def g_moment(V, O):
    """realised moment = demanded moment, stated in motor-force units (divide the x, y rows by l > 0 and the z row by
    Cm > 0: M_sat = M = (4 l u, 4 l v, 4 Cm w) in range, goal `M_sat = M (in range)`), which keeps the query linear"""
    F = col(O["Fp_sum"])
    u, v, w = (V[k][0][0] for k in ("u", "v", "w"))
    return z3.And(-F[0] + F[1] + F[2] - F[3] == 4 * u, -F[0] + F[1] - F[2] + F[3] == 4 * v, -F[0] - F[1] + F[2] + F[3] == 4 * w)


def g_msat_id(V, O):
    return z3.And([a == b for a, b in zip(col(O["M_sat"]), col(V["M"]))])


def n_moment(vin, vout):
    l, Cm, Fm = vin["l"][0][0], vin["Cm"][0][0], vin["F_max"][0][0]
    fmo = [x[0] for x in vout["F_moment"]]
    if max(fmo) - min(fmo) > Fm:
        return None
    F = [x[0] for x in vout["Fp_sum"]]
    _, Mx, My, Mz = geometry(F, l, Cm)
    ms = [x[0] for x in vout["M_sat"]]
    return all(abs(a - b) <= 1e-7 * (1 + abs(b)) for a, b in zip((Mx, My, Mz), ms))


def g_shift(V, O):
    """only the collective thrust is shifted (uniform offset), by the least amount needed"""
    Fm = V["F_max"][0][0]
    fp, fmo, ft = col(O["Fp_sum"]), col(O["F_moment"]), col(O["F_thrust"])
    d = [p - m_ - t for p, m_, t in zip(fp, fmo, ft)]
    uniform = z3.And(d[0] == d[1], d[1] == d[2], d[2] == d[3])
    least = z3.And(z3.Implies(d[0] > 0, zmin(fp) == 0), z3.Implies(d[0] < 0, zmax(fp) == Fm))
    return z3.And(uniform, least)


def n_shift(vin, vout):
    Fm = vin["F_max"][0][0]
    fp = [x[0] for x in vout["Fp_sum"]]
    fmo = [x[0] for x in vout["F_moment"]]
    ft = [x[0] for x in vout["F_thrust"]]
    if max(fmo) - min(fmo) > Fm:
        return None
    d = [p - m_ - t for p, m_, t in zip(fp, fmo, ft)]
    tol = 1e-9 * (1 + Fm)
    if max(d) - min(d) > tol:
        return False
    if d[0] > tol and abs(min(fp)) > tol:
        return False
    if d[0] < -tol and abs(max(fp) - Fm) > tol:
        return False
    return True


def g_msat(V, O):
    """range-limited moment: |M_sat| <= l*4*F_max/2 componentwise and = M when M is inside"""
    lim = V["l"][0][0] * 4 * V["F_max"][0][0] / 2
    parts = []
    for ms, m_ in zip(col(O["M_sat"]), col(V["M"])):
        parts += [ms <= lim, ms >= -lim, z3.Implies(z3.And(m_ <= lim, m_ >= -lim), ms == m_)]
    return z3.And(parts)


def n_msat(vin, vout):
    lim = vin["l"][0][0] * 4 * vin["F_max"][0][0] / 2
    return all(-lim - TOL <= ms[0] <= lim + TOL and (not (-lim <= m_[0] <= lim) or abs(ms[0] - m_[0]) < 1e-9) for ms, m_ in zip(vout["M_sat"], vin["M"]))


def sat_build(x, lo, hi):
    return {"y": rdd2.saturate(x, lo, hi), "ym": rdd2.saturatem(ca.vertcat(x, x + 1), ca.vertcat(lo, lo), ca.vertcat(hi, hi))}


class Dominance:
    """frame condition: the demand (T, M) reaches the outputs only through the range-limited T_sat / M_sat, so
    alloc(T, M) = alloc(sat T, sat M) and the core contracts (stated for in-range demands) extend to every demand."""

    id = "C13.control_allocation.dominance"
    functions = [rdd2.derive_control_allocation]

    def run(self, seed=0):
        from cyverif import ir
        from cyverif.harness import PROVED, REFUTED, Result
        ins = {n: ca.SX.sym(n, r, c) for n, r, c in [("F_max", 1, 1), ("l", 1, 1), ("Cm", 1, 1), ("Ct", 1, 1), ("T", 1, 1), ("M", 3, 1)]}
        out = alloc_build(**ins)
        g, on, _ = ir.extract(ins, out)
        msat = [on["M_sat"][i][0] for i in range(3)]
        # T_sat = 4 * F_thrust_i: take the saturate node feeding F_thrust (the unique IF_ELSE sum reached from F_thrust that depends on T)
        cut = set(msat)
        # find T_sat: first node on the way from F_thrust[0] whose support contains T and whose op is ADD of if_else_zero terms
        stack = [on["F_thrust"][0][0]]
        tsat = None
        while stack:
            n = stack.pop()
            if g.op(n) == "ADD" and all(g.op(a) == "IF_ELSE_ZERO" for a in g.args(n)):
                tsat = n
                break
            stack.extend(g.args(n))
        res = []
        ok = tsat is not None
        if ok:
            cut.add(tsat)
        # reachability of INPUT T / M from the outputs without passing through the cut nodes
        roots = [n for k in ("omega", "Fp_sum", "F_moment", "F_thrust") for row in on[k] for n in row if n is not None]
        seen = set()
        st = list(roots)
        leak = []
        while st:
            n = st.pop()
            if n in seen or n in cut:
                continue
            seen.add(n)
            op, args, payload = g.nodes[n]
            if op == "INPUT" and payload[0] in ("T", "M"):
                leak.append(payload)
            st.extend(args)
        ok = ok and not leak
        return [Result(self.id, "frame: outputs depend on (T, M) only through T_sat, M_sat", PROVED if ok else REFUTED, "STRUCT", "", 0.0,
                       "dominator check on the extracted graph" if ok else f"raw demand reaches the outputs: {leak} (T_sat found: {tsat is not None})",
                       None if ok else {"inputs": {}}, 1)]

    def replay(self, w):
        r = self.run()[0]
        return r.status != "proved", r.detail


def jobs(tier="quick"):
    to = 120 if tier == "quick" else 600
    core = in_range_inputs()
    any_inputs = [Pos("F_max"), Pos("l"), Pos("Cm"), Pos("Ct"), Free("T", 1), Free("M", 3)]
    J = [
    ] + [
        SmtJob(f"C13.control_allocation.core.{tag}", core, alloc_build, requires, goals,
               functions=[rdd2.derive_control_allocation, rdd2.saturate, rdd2.saturatem],
               assumptions=["allocator core: requires the demand already range-limited; extended to all demands by C13.control_allocation.dominance + the M_sat/T_sat contracts",
                            "real arithmetic: the exactness clauses are equalities over the reals (floating-point rounding of the shift is not modelled)"])
        for tag, goals in [
            ("box", [Goal("box: every motor force in [0, F_max]", g_box, n_box, to),
                     Goal("M_sat = M for an in-range demand", g_msat_id, None, to)]),
            ("omega", [Goal("omega: motor speeds finite, non-negative, omega^2 Ct = force", g_omega, n_omega, to)]),
            ("exact", [Goal("exact: jointly achievable demand (0 <= F_sum <= F_max) is reproduced exactly", g_exact, n_exact, to, pre_feasible)]),
            ("moment", [Goal("moment: spread(F_moment) <= F_max => realised moment = demanded (range-limited) moment", g_moment, n_moment, to, pre_spread)]),
            ("shift", [Goal("shift: spread(F_moment) <= F_max => uniform collective shift, least needed", g_shift, n_shift, to, pre_spread)]),
        ]
    ] + [
        SmtJob("C13.control_allocation.any-demand", any_inputs, alloc_build, requires_any, [
            Goal("box: every motor force in [0, F_max] (any demand)", g_box, n_box, to),
            Goal("omega: motor speeds finite, non-negative (any demand)", g_omega, n_omega, to),
            Goal("M_sat: moment demand range-limited to +-l*T_max/2, unchanged inside", g_msat, n_msat, to),
        ], functions=[rdd2.derive_control_allocation]),
        Dominance(),
        SmtJob("C13.saturate", [Free("x", 1), Free("lo", 1), Free("hi", 1)], sat_build, lambda V: [V["lo"][0][0] <= V["hi"][0][0]], [
            Goal("saturate: lo <= hi => result in [lo, hi] and = x when x is inside",
                 lambda V, O: z3.And(O["y"][0][0] >= V["lo"][0][0], O["y"][0][0] <= V["hi"][0][0],
                                     z3.Implies(z3.And(V["x"][0][0] >= V["lo"][0][0], V["x"][0][0] <= V["hi"][0][0]), O["y"][0][0] == V["x"][0][0])),
                 lambda vin, vout: vin["lo"][0][0] <= vout["y"][0][0] <= vin["hi"][0][0], 30),
            Goal("saturatem: componentwise saturate",
                 lambda V, O: z3.And([z3.And(O["ym"][k][0] >= V["lo"][0][0], O["ym"][k][0] <= V["hi"][0][0]) for k in range(2)]),
                 lambda vin, vout: all(vin["lo"][0][0] <= vout["ym"][k][0] <= vin["hi"][0][0] for k in range(2)), 30),
        ], functions=[rdd2.saturate, rdd2.saturatem]),
    ]
    return J


def traces(tier="quick"):
    """mixer matrix A is the exact inverse of the motor geometry: geometry(A [T; M]) = [T; M]  (ALG identity)"""
    def b(F_max, l, Cm, Ct, T, M):
        f = rdd2.derive_control_allocation()["f_alloc"]
        # demand small enough that nothing saturates is not assumed: use F_moment/F_thrust (pre-saturation, linear in T_sat, M_sat)
        omega, Fp_sum, F_moment, F_thrust, M_sat = f(F_max, l, Cm, Ct, T, M)
        F = F_moment + F_thrust
        Tt, Mx, My, Mz = geometry([F[i] for i in range(4)], l, Cm)
        Tm, Mxm, Mym, Mzm = geometry([F_moment[i] for i in range(4)], l, Cm)
        return {"M_geo": ca.vertcat(Mx, My, Mz), "M_sat": M_sat, "T_from_moment": Tm, "T4": ca.vertcat(*[F_thrust[i] * 4 for i in range(4)]),
                "T_geo4": ca.vertcat(Tt, Tt, Tt, Tt)}

    return [_Trace("C13.mixer-inverse", [Pos("F_max"), Pos("l"), Pos("Cm"), Pos("Ct"), Free("T", 1), Free("M", 3)], b, [
        Ob("moments produced by F_moment + F_thrust = M_sat (mixer is the inverse of the geometry)", "M_geo", "M_sat"),
        Ob("F_moment carries no net thrust", "T_from_moment", None),
        Ob("total thrust of F_sum = 4 * F_thrust_i (= T_sat)", "T_geo4", "T4")],
        functions=[rdd2.derive_control_allocation], max_paths=256, budget_s=300, definedness=False)]


def canaries(tier="quick"):
    def g_half(V, O):
        Fm = V["F_max"][0][0]
        return z3.And([f <= Fm / 2 for f in col(O["Fp_sum"])])

    def n_half(vin, vout):
        return all(f[0] <= vin["F_max"][0][0] / 2 + TOL for f in vout["Fp_sum"])

    return [SmtJob("C13.canary.box-half", in_range_inputs(), alloc_build, requires, [Goal("every motor force <= F_max/2 [false]", g_half, n_half, 60)])]


class _Canary:
    pass


MIN_OBLIGATIONS = {"quick": 8, "thorough": 8}
TRUSTED = ["A-GRAPH, A-REAL", "z3 / cvc5 QF_NRA decision procedures", "IR->SMT encoder cyverif.smt.IRSMT (total division, sqrt as constrained fresh variable)"]
ASSUMPTIONS = ["requires F_max, l, Cm, Ct > 0", "exactness over the reals: IEEE rounding in the thrust shift is not modelled"]
