"""C15 — controller laws respect their saturations (invariants of the recursion, because each bound is a
postcondition that holds for EVERY previous state) and the attitude error law vanishes exactly at zero error."""
from __future__ import annotations

import contextlib
import io
import math
from fractions import Fraction

import casadi as ca
import z3

from cyverif.harness import Ob, cells
from cyverif.harness import Trace as _Trace
from cyverif.smtjob import Goal, SmtJob
from cyverif.sorts import Angle, Composite, Const, Free, Pos, UnitQuat
from . import spec
from .c14 import capture_from_matrix, derive_with_stub

with contextlib.redirect_stdout(io.StringIO()):
    from cyecca.models import rdd2, rdd2_loglinear
from cyecca.lie.group_so3 import SO3Quat, so3
from cyecca.lie.group_se23 import SE23Quat, se23

CLOSED = cells(series="closed")
DEG = math.pi / 180


def col(M):
    return [r[0] for r in M]


# ------------------------------------------------------------------------------------------------
def transcendental(hy, n):
    """contracts of the libm operations that reach the SMT encoder:
    remainder(x, c): |r| <= c/2 (IEEE remainder);  sin/cos of a piecewise angle: a fresh pair with s^2 + c^2 = 1"""
    op, args, _ = hy.g.nodes[n]
    if op == "REMAINDER":
        c = hy.val(args[1])
        assert c[0] == "F" and c[1].is_const()
        cv = c[1].const_value()
        hy.aux += 1
        r = z3.Real(f"rem!{hy.aux}")
        hy.side.append(z3.And(r >= -z3.RealVal(str(cv)) / 2, r <= z3.RealVal(str(cv)) / 2))
        return ("Z", r)
    if op == "FMOD":
        # C fmod(x, c), c > 0 constant: |r| < c and r has the sign of x (or is zero)
        c = hy.val(args[1])
        assert c[0] == "F" and c[1].is_const() and c[1].const_value() > 0
        cv = z3.RealVal(str(c[1].const_value()))
        xz = hy.z(hy.val(args[0]))
        hy.aux += 1
        r = z3.Real(f"fmod!{hy.aux}")
        hy.side.append(z3.And(r > -cv, r < cv, z3.Implies(xz >= 0, r >= 0), z3.Implies(xz <= 0, r <= 0), z3.Implies(z3.And(xz > -cv, xz < cv), r == xz)))
        return ("Z", r)
    if op in ("SIN", "COS"):
        cache = hy.__dict__.setdefault("_trig", {})
        if args[0] not in cache:
            hy.aux += 1
            s, c = z3.Real(f"sin!{hy.aux}"), z3.Real(f"cos!{hy.aux}")
            hy.side.append(s * s + c * c == 1)
            cache[args[0]] = (s, c)
        s, c = cache[args[0]]
        return ("Z", s if op == "SIN" else c)
    return None


def rate_control_job(to):
    f = rdd2.derive_attitude_rate_control()["attitude_rate_control"]

    def build(kp, ki, kd, f_cut, i_max, omega, omega_r, i0, e0, de0, dt):
        M, i1, e1, de1, alpha = f(kp, ki, kd, f_cut, i_max, omega, omega_r, i0, e0, de0, dt)
        return {"i1": i1, "alpha": alpha, "e1": e1, "M": M, "de1": de1}

    ins = [Free("kp", 3), Free("ki", 3), Free("kd", 3), Pos("f_cut"), Free("i_max", 3, nonneg=True), Free("omega", 3), Free("omega_r", 3), Free("i0", 3),
           Free("e0", 3), Free("de0", 3), Pos("dt")]

    def req(V):
        return [V["f_cut"][0][0] > 0, V["dt"][0][0] > 0] + [x >= 0 for x in col(V["i_max"])]

    def g_int(V, O):
        return z3.And([z3.And(i <= m, i >= -m) for i, m in zip(col(O["i1"]), col(V["i_max"]))])

    def n_int(vin, vout):
        return all(-m[0] - 1e-12 <= i[0] <= m[0] + 1e-12 for i, m in zip(vout["i1"], vin["i_max"]))

    def g_int_id(V, O):
        parts = []
        for i1, i0, w, wr, m in zip(col(O["i1"]), col(V["i0"]), col(V["omega"]), col(V["omega_r"]), col(V["i_max"])):
            raw = i0 + (wr - w) * V["dt"][0][0]
            parts.append(z3.Implies(z3.And(raw <= m, raw >= -m), i1 == raw))
        return z3.And(parts)

    def g_alpha(V, O):
        a = O["alpha"][0][0]
        return z3.And(a > 0, a < 1)

    def n_alpha(vin, vout):
        return 0 < vout["alpha"][0][0] < 1

    def g_law(V, O):
        parts = []
        for k in range(3):
            e1 = V["omega_r"][k][0] - V["omega"][k][0]
            parts.append(O["e1"][k][0] == e1)
            parts.append(O["M"][k][0] == V["kp"][k][0] * e1 + V["ki"][k][0] * O["i1"][k][0] + V["kd"][k][0] * O["de1"][k][0])
        return z3.And(parts)

    return SmtJob("C15.attitude_rate_control", ins, build, req, [
        Goal("integrator output within +-i_max for every previous integrator state (invariant of the recursion)", g_int, n_int, to),
        Goal("integrator = i0 + e dt when that is inside the limits", g_int_id, None, to),
        Goal("derivative-filter coefficient strictly between 0 and 1", g_alpha, n_alpha, to),
        Goal("PID law: M = kp e + ki i1 + kd de1, e = omega_r - omega", g_law, None, to),
    ], functions=[rdd2.derive_attitude_rate_control, rdd2.saturatem])


def input_velocity_job(to):
    f = rdd2.derive_input_velocity()["input_velocity"]

    def build(dt, psi_sp, pw_sp, pw, input_aetr, reset_position):
        psi_sp1, psi_vel_sp, pw_sp1, vw_sp, aw_sp, q_sp = f(dt, psi_sp, pw_sp, pw, input_aetr, reset_position)
        return {"psi_sp1": psi_sp1, "pw_sp1": pw_sp1, "d": pw_sp1 - pw}

    ins = [Free("dt", 1), Free("psi_sp", 1), Free("pw_sp", 3), Free("pw", 3), Free("input_aetr", 4), Free("reset_position", 1)]
    PI = z3.RealVal("3.14159265358979")  # a rational strictly below pi: [-2*double(pi)/2, +] is inside [-pi, pi]

    def g_yaw(V, O):
        p = O["psi_sp1"][0][0]
        dpi = z3.RealVal(str(Fraction(math.pi)))
        return z3.And(p <= dpi, p >= -dpi)

    def n_yaw(vin, vout):
        return -math.pi <= vout["psi_sp1"][0][0] <= math.pi

    def g_leash(V, O):
        d = col(O["d"])
        return d[0] * d[0] + d[1] * d[1] + d[2] * d[2] <= 4

    def n_leash(vin, vout):
        return sum(x[0] ** 2 for x in vout["d"]) <= 4 + 1e-9

    def g_reset(V, O):
        return z3.Implies(V["reset_position"][0][0] != 0, z3.And([x == 0 for x in col(O["d"])]))

    def n_reset(vin, vout):
        return vin["reset_position"][0][0] == 0 or all(abs(x[0]) < 1e-12 for x in vout["d"])

    return SmtJob("C15.input_velocity", ins, build, lambda V: [], [
        Goal("yaw set-point in [-double(pi), double(pi)] (inside [-pi, pi]) by the IEEE remainder contract", g_yaw, n_yaw, to),
        Goal("position set-point never farther than 2 m from the vehicle", g_leash, n_leash, to),
        Goal("reset puts the set-point on the vehicle", g_reset, n_reset, to),
    ], functions=[rdd2.derive_input_velocity], transcendental=transcendental,
        assumptions=["libm contract: |remainder(x, c)| <= c/2; sin^2 + cos^2 = 1 for the yaw rotation of the stick velocity"])


def stick_traces():
    T = []

    def b_acro(thrust_trim, thrust_delta, input_aetr):
        w, thrust = rdd2.derive_input_acro()["input_acro"](thrust_trim, thrust_delta, input_aetr)
        c1, c2 = rdd2.rollpitch_rate_max * rdd2.deg2rad, rdd2.yaw_rate_max * rdd2.deg2rad
        return {"w": w, "w_spec": ca.vertcat(c1 * input_aetr[0], c1 * input_aetr[1], c2 * input_aetr[3]), "thrust": thrust,
                "thrust_spec": input_aetr[2] * thrust_delta + thrust_trim}

    T.append(_Trace("C15.input_acro", [Free("thrust_trim", 1), Free("thrust_delta", 1), Free("input_aetr", 4, scale=1.0)], b_acro,
                    [Ob("rates linear in the sticks with slope rate_max", "w", "w_spec"), Ob("thrust = stick * delta + trim", "thrust", "thrust_spec")],
                    functions=[rdd2.derive_input_acro], definedness=False))

    # auto level: Euler reference handed to from_Euler = (yaw + 60deg*r, 30deg*e, 30deg*a), yaw from the (stubbed) Euler extraction
    from cyecca.lie.group_so3 import SO3QuatLieGroup, SO3EulerLieGroup, SO3EulerB321

    @contextlib.contextmanager
    def stubs(store, Y):
        r1, r2 = SO3QuatLieGroup.from_Euler, SO3EulerLieGroup.from_Quat

        def s1(self, arg):
            store.append(arg.param)
            return SO3Quat.elem(Y[0:4])

        def s2(self, arg):
            return SO3EulerB321.elem(Y[4:7])

        SO3QuatLieGroup.from_Euler, SO3EulerLieGroup.from_Quat = s1, s2
        try:
            yield
        finally:
            SO3QuatLieGroup.from_Euler, SO3EulerLieGroup.from_Quat = r1, r2

    def b_auto(thrust_trim, thrust_delta, input_aetr, q, Y):
        Yi = ca.SX.sym("Yi", 7)
        aux, n_out, n_cap = derive_with_stub(rdd2.derive_input_auto_level, "input_auto_level", stubs, Yi)
        res = aux(thrust_trim, thrust_delta, input_aetr, q, Y)
        e_ref = res[2]
        return {"e_ref": e_ref, "e_spec": ca.vertcat(Y[4] + rdd2.yaw_rate_max * rdd2.deg2rad * input_aetr[3], rdd2.rollpitch_max * rdd2.deg2rad * input_aetr[1],
                                                     rdd2.rollpitch_max * rdd2.deg2rad * input_aetr[0])}

    T.append(_Trace("C15.input_auto_level", [Free("thrust_trim", 1), Free("thrust_delta", 1), Free("input_aetr", 4, scale=1.0), UnitQuat("q"), Free("Y", 7)], b_auto,
                    [Ob("reference angles linear in the sticks: (yaw + 60deg r, 30deg e, 30deg a)", "e_ref", "e_spec")],
                    functions=[rdd2.derive_input_auto_level], definedness=False))
    return T


def position_bound_trace():
    def b(thrust_trim, pt_w, vt_w, at_w, qc_wb, p_w, v_w, z_i, dt, Y):
        Yi = ca.SX.sym("Yi", 7)
        aux, n_out, n_cap = derive_with_stub(rdd2.derive_position_control, "position_control", capture_from_matrix, Yi)
        nT, q_out, z_i_2, Rd = aux(thrust_trim, pt_w, vt_w, at_w, qc_wb, p_w, v_w, z_i, dt, Y)
        fb = Rd[:, 2] * nT - ca.vertcat(0, 0, thrust_trim + rdd2.ki_z * z_i)
        p_lim = 0.3 * rdd2.m * rdd2.g
        return {"fb_sq": ca.dot(fb, fb), "lim_sq": ca.SX(p_lim * p_lim * (1 + 1e-12)), "z_i_2": z_i_2, "z_hi": ca.SX(rdd2.z_integral_max), "z_lo": ca.SX(-rdd2.z_integral_max)}

    from .c14 import nominal
    ins = [Free("thrust_trim", 1), Free("pt_w", 3), Free("vt_w", 3), Free("at_w", 3), UnitQuat("qc_wb"), Free("p_w", 3), Free("v_w", 3), Free("z_i", 1),
           Free("dt", 1), Composite("Y", [Free("Yq", 4), Angle("Yyaw"), Free("Ypr", 2)])]
    return _Trace("C15.position_control.bounds", ins, b, [
        Ob("feedback term (thrust vector minus trim) never exceeds 30% of weight: |zB nT - trim e3|^2 <= (0.3 m g)^2", "fb_sq", "lim_sq", kind="le"),
        Ob("height integrator <= its limit", "z_i_2", "z_hi", kind="le"), Ob("height integrator >= -limit", "z_i_2", "z_lo", kind="ge")],
        functions=[rdd2.derive_position_control], decide=nominal, budget_s=600, max_paths=256, smt_timeout=30,
        note="feedback term recovered from the returned thrust vector zB*nT (from_Matrix by contract); nominal thrust branch; relative slack 1e-12 on the limit for the constant 0.3*m*g evaluated in doubles")


def alg_rotvec(name):
    from cyverif.sorts import RotVec
    return RotVec(name, 2, 0.2, 3.0)


def error_law_traces(tier):
    T = []
    f_att = rdd2.derive_attitude_control()["attitude_control"]
    with contextlib.redirect_stdout(io.StringIO()):
        f_so3 = rdd2_loglinear.derive_so3_attitude_control()["so3_attitude_control"]
        f_err = rdd2_loglinear.derive_se23_error()["se23_error"]
        f_se23att = rdd2_loglinear.derive_outerloop_control()["se23_attitude_control"]

    from cyecca.lie.group_so3 import SO3QuatLieGroup

    @contextlib.contextmanager
    def stub_qlog(store, Y):
        """SO3Quat.log by contract (C03: exp(log X) = X as rotations, principal rotation vector): records the argument"""
        real = SO3QuatLieGroup.log

        def stub(self, arg):
            store.append(arg.param)
            return so3.elem(Y)

        SO3QuatLieGroup.log = stub
        try:
            yield
        finally:
            SO3QuatLieGroup.log = real

    def b_att(kp, q, q_r, Y):
        Yi = ca.SX.sym("Yi", 3)
        with contextlib.redirect_stdout(io.StringIO()):
            aux, n_out, n_cap = derive_with_stub(rdd2.derive_attitude_control, "attitude_control", stub_qlog, Yi)
        assert n_cap == 1, f"log called {n_cap} times"
        omega, X = aux(kp, q, q_r, Y)
        return {"omega": omega, "kp_e": kp * Y, "reach": spec.R_quat(q) @ spec.R_quat(X), "M_r": spec.R_quat(q_r), "Xn": ca.dot(X, X), "one": ca.SX.ones(1, 1)}

    T.append(_Trace("C15.attitude_control", [Free("kp", 3), UnitQuat("q"), UnitQuat("q_r"), Free("Y", 3)], b_att, [
        Ob("omega = kp (elementwise) * e, e the result of SO3Quat.log returned unchanged", "omega", "kp_e"),
        Ob("call site: log receives the unit quaternion X with R(q) R(X) = R(q_r)  (so that, by the log contract, applying the commanded rotation e to the measured attitude gives the reference)", "reach", "M_r"),
        Ob("call site: the argument of log is a unit quaternion", "Xn", "one")],
        functions=[rdd2.derive_attitude_control], budget_s=600, lemmas=["callee-contract C03.SO3Quat.rt1 (exp(log X) = X) and principal"],
        note="modular: SO3Quat.log by contract; with it R(q) exp(e) = R(q) R(X) = R(q_r)"))

    def b_zero(kp, q):
        return {"same": f_att(kp, q, q), "opp": f_att(kp, q, -q), "so3_same": f_so3(kp, q, q), "so3_opp": f_so3(kp, q, -q)}

    T.append(_Trace("C15.attitude_control.zero", [Free("kp", 3), UnitQuat("q")], b_zero, [
        Ob("zero when reference = measured (q_r = q)", "same", None), Ob("zero when q_r = -q (the same rotation)", "opp", None),
        Ob("so3 law: zero when q_r = q", "so3_same", None), Ob("so3 law: zero when q_r = -q", "so3_opp", None)],
        functions=[rdd2.derive_attitude_control, rdd2_loglinear.derive_so3_attitude_control], decide=None, budget_s=300))

    def b_so3(kp, q, q_r, Y):
        Yi = ca.SX.sym("Yi", 3)
        with contextlib.redirect_stdout(io.StringIO()):
            aux, n_out, n_cap = derive_with_stub(rdd2_loglinear.derive_so3_attitude_control, "so3_attitude_control", stub_qlog, Yi)
        assert n_cap == 1, f"log called {n_cap} times"
        omega, X = aux(kp, q, q_r, Y)
        return {"omega": omega, "law": so3.elem(Y).left_jacobian() @ (kp * Y), "reach": spec.R_quat(q) @ spec.R_quat(X), "M_r": spec.R_quat(q_r)}

    T.append(_Trace("C15.so3_attitude_control", [Free("kp", 3), UnitQuat("q"), UnitQuat("q_r"), alg_rotvec("Y")], b_so3,
                    [Ob("omega = J_l(e) diag(kp) e with e the result of SO3Quat.log", "omega", "law"),
                     Ob("call site: log receives X with R(q) R(X) = R(q_r)", "reach", "M_r")],
                    functions=[rdd2_loglinear.derive_so3_attitude_control], decide=CLOSED, budget_s=600,
                    lemmas=["callee-contract C03.SO3Quat.rt1 (exp(log X) = X) and principal"], note="modular: SO3Quat.log by contract"))

    from cyecca.lie.group_se23 import SE23LieGroup

    @contextlib.contextmanager
    def stub_log(store, Y):
        real = SE23LieGroup.log

        def stub(self, arg):
            store.append(arg.param)
            return se23.elem(Y)

        SE23LieGroup.log = stub
        try:
            yield
        finally:
            SE23LieGroup.log = real

    def b_se23(p_w, v_w, q_wb, p_rw, v_rw, q_r, Y):
        Yi = ca.SX.sym("Yi", 9)
        with contextlib.redirect_stdout(io.StringIO()):
            aux, n_out, n_cap = derive_with_stub(rdd2_loglinear.derive_se23_error, "se23_error", stub_log, Yi)
        assert n_cap == 1
        zeta, eta = aux(p_w, v_w, q_wb, p_rw, v_rw, q_r, Y)
        X = SE23Quat.elem(ca.vertcat(p_w, v_w, q_wb))
        Xr = SE23Quat.elem(ca.vertcat(p_rw, v_rw, q_r))
        return {"X_eta": X.to_Matrix() @ SE23Quat.elem(eta).to_Matrix(), "M_r": Xr.to_Matrix(), "zeta": zeta, "Y": Y}

    T.append(_Trace("C15.se23_error", [Free("p_w", 3), Free("v_w", 3), UnitQuat("q_wb"), Free("p_rw", 3), Free("v_rw", 3), UnitQuat("q_r"), Free("Y", 9)], b_se23, [
        Ob("call site: log receives eta with X eta = X_r (as matrices)", "X_eta", "M_r"),
        Ob("call site: zeta is log(eta) returned unchanged", "zeta", "Y")], functions=[rdd2_loglinear.derive_se23_error], budget_s=300,
        lemmas=["callee-contract C03.SE23Quat.rt1 (exp(log eta) = eta)"],
        note="modular: with the log contract, X exp(zeta) = X eta = X_r"))

    def b_se23_zero(p_w, v_w, q_wb):
        return {"zeta_same": f_err(p_w, v_w, q_wb, p_w, v_w, q_wb), "zeta_opp": f_err(p_w, v_w, q_wb, p_w, v_w, -q_wb)}

    T.append(_Trace("C15.se23_error.zero", [Free("p_w", 3), Free("v_w", 3), UnitQuat("q_wb")], b_se23_zero, [
        Ob("zeta = 0 when reference = measured", "zeta_same", None), Ob("zeta = 0 when q_r = -q", "zeta_opp", None)],
        functions=[rdd2_loglinear.derive_se23_error], decide=None, budget_s=300))

    from .groups import alg_sort, make_groups
    G = make_groups()

    def b_se23att(kp, zeta):
        u = f_se23att(kp, zeta)
        w = zeta[6:9]
        return {"u": u, "law": so3.elem(w).left_jacobian() @ (kp * w)}

    T.append(_Trace("C15.se23_attitude_control", [Free("kp", 3), alg_sort(G["SE23Quat"], "zeta", G)], b_se23att,
                    [Ob("omega = J_l(zeta_w) diag(kp) zeta_w (rotational rows of J_l(zeta) K zeta)", "u", "law")],
                    functions=[rdd2_loglinear.derive_outerloop_control], decide=CLOSED, budget_s=600))
    return T


def traces(tier="quick"):
    return stick_traces() + [position_bound_trace()] + error_law_traces(tier)


def jobs(tier="quick"):
    to = 60 if tier == "quick" else 300
    return [rate_control_job(to), input_velocity_job(to)]


def canaries(tier="quick"):
    f = rdd2.derive_attitude_rate_control()["attitude_rate_control"]

    def build(kp, ki, kd, f_cut, i_max, omega, omega_r, i0, e0, de0, dt):
        return {"i1": f(kp, ki, kd, f_cut, i_max, omega, omega_r, i0, e0, de0, dt)[1]}

    ins = [Free("kp", 3), Free("ki", 3), Free("kd", 3), Pos("f_cut"), Free("i_max", 3, nonneg=True), Free("omega", 3), Free("omega_r", 3), Free("i0", 3),
           Free("e0", 3), Free("de0", 3), Pos("dt")]
    return [SmtJob("C15.canary.integrator-half", ins, build, lambda V: [x >= 0 for x in col(V["i_max"])],
                   [Goal("|i1| <= i_max / 2 [false]", lambda V, O: z3.And([z3.And(2 * i <= m, 2 * i >= -m) for i, m in zip(col(O["i1"]), col(V["i_max"]))]),
                         lambda vin, vout: all(abs(2 * i[0]) <= m[0] + 1e-12 for i, m in zip(vout["i1"], vin["i_max"])), 30)])]


MIN_OBLIGATIONS = {"quick": 20, "thorough": 20}
TRUSTED = ["A-GRAPH, A-REAL, own ring engine, z3/cvc5", "libm contract |remainder(x,c)| <= c/2"]
ASSUMPTIONS = ["bounds are per-call postconditions valid for every previous state, hence invariants of arbitrarily long runs (induction over the history is immediate)",
               "requires dt > 0, f_cut > 0, i_max >= 0", "error-law `reach` on the closed-form cell of the series coefficients (Taylor cell in C06); `zero` exactly, through the Taylor branch"]
