"""C10 — filter numerics: square-root covariance algebra, LDL/UDU factorisations, RK4."""
from __future__ import annotations

import casadi as ca

from cyverif.harness import Ob
from cyverif.harness import Trace as _Trace
from cyverif.sorts import Free, LowerTri, Nilpotent, Pos, Sym
from cyecca import util

from . import spec


def strict_upper(n):
    return [(i, j) for i in range(n) for j in range(n) if j > i]


def predict_trace(n):
    def b(W, F, Q):
        Wd = util.sqrt_covariance_predict(W, F, Q)
        P = W @ W.T
        return {"Wd": Wd, "lhs": Wd @ W.T + W @ Wd.T, "rhs": F @ P + P @ F.T + Q}

    return _Trace(f"C10.sqrt_covariance_predict.n{n}", [LowerTri("W", n), Free("F", n, n), Sym("Q", n)], b, [
        Ob("W' is lower triangular (strict upper part = 0)", "Wd", None, entries=strict_upper(n)),
        Ob("W' W^T + W W'^T = F P + P F^T + Q", "lhs", "rhs")],
        functions=[util.sqrt_covariance_predict], budget_s=900)


def correct_outputs(Rs, H, W, Wp, K, Ss, nx):
    P = W @ W.T
    S = H @ P @ H.T + Rs @ Rs.T
    return {"KS": K @ S, "PHt": P @ H.T, "SsSst": Ss @ Ss.T, "S": S, "WpWpt": Wp @ Wp.T, "IKHP": (spec.I(nx) - K @ H) @ P,
            "Wp": Wp, "Ss": Ss, "KSKt": K @ S @ K.T, "PmPp": P - Wp @ Wp.T}


def correct_numeric(nx, ny):
    """the real function with the real ca.qr: used for counterexample search and replay only"""
    def b(Rs, H, W):
        Wp, K, Ss = util.sqrt_correct(Rs, H, W)
        return correct_outputs(Rs, H, W, Wp, K, Ss, nx)

    return _Trace(f"C10.sqrt_correct.nx{nx}.ny{ny}.numeric", [LowerTri("Rs", ny), Free("H", ny, nx), LowerTri("W", nx)], b, [
        Ob("K S = P H^T  (Kalman gain K = P H^T S^-1)", "KS", "PHt"),
        Ob("Ss Ss^T = H P H^T + R", "SsSst", "S"),
        Ob("W+ W+^T = (I - K H) P", "WpWpt", "IKHP"),
        Ob("P - P+ = K S K^T  (so P+ <= P)", "PmPp", "KSKt")])


def correct_trace(nx, ny):
    """sqrt_correct with ca.qr replaced by its CONTRACT.  The stub returns opaque (Q, R) with R structurally upper
    triangular; the contract A = Q R, Q^T Q = I gives E := R^T R - A^T A = 0.  Each goal is proved as a polynomial
    identity  goal_lhs - goal_rhs = (certificate linear in E)  so that E = 0 implies the goal:
        L := R^T = [[Ss, 0], [G, Wp]],  E11 = Ss Ss^T - S,  E21 = G Ss^T - P H^T,  E22 = G G^T + Wp Wp^T - P."""
    N = nx + ny

    class UpperSym(Free):
        def __init__(self, name, n):
            super().__init__(name, n, n)
            self.n = n

        def sx(self):
            if not hasattr(self, "_sx"):
                self._sx = ca.SX.sym(self.name, ca.Sparsity.upper(self.n))
            return self._sx

        def payloads(self):
            return [(self.name, i, j) for j in range(self.n) for i in range(j + 1)]

        def sample(self, rng):
            return [[rng.uniform(-1, 1) if i <= j else 0.0 for j in range(self.n)] for i in range(self.n)]

        def dm(self, vals):
            D = ca.DM(ca.Sparsity.upper(self.n))
            for j in range(self.n):
                for i in range(j + 1):
                    D[i, j] = vals[i][j]
            return D

    def b(Rs, H, W, Rq, Qq):
        captured = []
        real = ca.qr

        def stub(A):
            captured.append(A)
            return Qq, Rq

        ca.qr = stub
        try:
            Wp, K, Ss = util.sqrt_correct(Rs, H, W)
        finally:
            ca.qr = real
        assert len(captured) == 1
        A = captured[0]
        B = ca.blockcat(Rs, H @ W, ca.SX.zeros(nx, ny), W)
        P = W @ W.T
        S = H @ P @ H.T + Rs @ Rs.T
        L = Rq.T
        E = L @ L.T - B @ B.T
        E11, E21, E22 = E[:ny, :ny], E[ny:, :ny], E[ny:, ny:]
        o = correct_outputs(Rs, H, W, Wp, K, Ss, nx)
        return {
            "qr_arg": A, "Bt": B.T,
            "g1": o["SsSst"] - o["S"], "c1": E11,
            "g2": o["KS"] - o["PHt"], "c2": E21 - K @ E11,
            "g3": o["WpWpt"] - o["IKHP"], "c3": E22 - K @ E21.T,
            "g4": o["PmPp"] - o["KSKt"], "c4": -E22 + K @ E11 @ K.T,
            "Wp": Wp, "Ss": Ss,
        }

    return _Trace(f"C10.sqrt_correct.nx{nx}.ny{ny}", [LowerTri("Rs", ny), Free("H", ny, nx), LowerTri("W", nx), UpperSym("Rq", N), Free("Qq", N, N)], b, [
        Ob("call site: ca.qr receives the transposed pre-array [[Rs, H W],[0, W]]^T", "qr_arg", "Bt"),
        Ob("Ss Ss^T = H P H^T + R", "g1", "c1"),
        Ob("K S = P H^T  (Kalman gain K = P H^T S^-1)", "g2", "c2"),
        Ob("W+ W+^T = (I - K H) P", "g3", "c3"),
        Ob("P - P+ = K S K^T  (so P+ <= P)", "g4", "c4"),
        Ob("W+ lower triangular (structural)", "Wp", None, kind="structural_zero", entries=strict_upper(nx)),
        Ob("Ss lower triangular (structural)", "Ss", None, kind="structural_zero", entries=strict_upper(ny))],
        functions=[util.sqrt_correct], budget_s=900, numeric=correct_numeric(nx, ny),
        lemmas=["external-contract ca.qr: A = Q R, Q^T Q = I, R upper triangular (hence R^T R = A^T A)"],
        note="modular: ca.qr by contract; goals proved as 'goal = certificate(E)', E = R^T R - A^T A = 0 by the contract")


def ldl_trace(n):
    def b(P):
        L, D = util.ldl_symmetric_decomposition(P)
        return {"LDLt": L @ D @ L.T, "P": P, "L": L, "D": D, "diagL": ca.diag(L), "ones": ca.SX.ones(n, 1)}

    offdiag = [(i, j) for i in range(n) for j in range(n) if i != j]
    return _Trace(f"C10.ldl.n{n}", [Sym("P", n)], b, [
        Ob("L D L^T = P", "LDLt", "P"), Ob("L unit diagonal", "diagL", "ones"),
        Ob("L lower triangular (structural)", "L", None, kind="structural_zero", entries=strict_upper(n)),
        Ob("D diagonal (structural)", "D", None, kind="structural_zero", entries=offdiag)],
        functions=[util.ldl_symmetric_decomposition], budget_s=600)


def udu_trace(n):
    def b(P):
        U, D = util.udu_symmetric_decomposition(P)
        return {"UDUt": U @ D @ U.T, "P": P, "U": U, "D": D, "diagU": ca.diag(U), "ones": ca.SX.ones(n, 1)}

    offdiag = [(i, j) for i in range(n) for j in range(n) if i != j]
    lower = [(i, j) for i in range(n) for j in range(n) if j < i]
    return _Trace(f"C10.udu.n{n}", [Sym("P", n)], b, [
        Ob("U D U^T = P", "UDUt", "P"), Ob("U unit diagonal", "diagU", "ones"),
        Ob("U upper triangular (structural)", "U", None, kind="structural_zero", entries=lower),
        Ob("D diagonal (structural)", "D", None, kind="structural_zero", entries=offdiag)],
        functions=[util.udu_symmetric_decomposition], budget_s=600)


def rk4_traces():
    T = []

    # (i) exact for cubic-in-time derivative
    def b1(a, t, y, h):
        f = lambda tt, yy: a[0] + a[1] * tt + a[2] * tt ** 2 + a[3] * tt ** 3
        F = lambda tt: a[0] * tt + a[1] * tt ** 2 / 2 + a[2] * tt ** 3 / 3 + a[3] * tt ** 4 / 4
        return {"y1": util.rk4(f, t, y, h), "exact": y + F(t + h) - F(t)}

    T.append(_Trace("C10.rk4.cubic-in-time", [Free("a", 4), Free("t", 1), Free("y", 1), Free("h", 1)], b1,
                    [Ob("exact when the derivative is a cubic polynomial in time", "y1", "exact")], functions=[util.rk4]))

    # (ii) linear system y' = A y: result = sum_{k<=4} (hA)^k/k! y
    def b2(A, y, h):
        f = lambda tt, yy: A @ yy
        hA = h * A
        Phi = spec.I(2) + hA + hA @ hA / 2 + hA @ hA @ hA / 6 + hA @ hA @ hA @ hA / 24
        return {"y1": util.rk4(f, 0, y, h), "taylor4": Phi @ y}

    T.append(_Trace("C10.rk4.linear-system", [Free("A", 2, 2), Free("y", 2), Free("h", 1)], b2,
                    [Ob("y' = A y: one step = 4th-order Taylor polynomial of expm(hA) y", "y1", "taylor4")], functions=[util.rk4]))

    # (iii) order conditions on a generic scalar non-autonomous polynomial field of total degree 3
    idx = [(i, j) for i in range(4) for j in range(4) if i + j <= 3]

    def b3(c, t, y, h):
        f = lambda tt, yy: sum(c[k] * tt ** i * yy ** j for k, (i, j) in enumerate(idx))
        y1 = util.rk4(f, t, y, h)
        # exact Taylor polynomial of the solution: y^(k) = D^(k-1) f, D = d/dt + f d/dy
        fk = f(t, y)
        derivs = [y, fk]
        cur = fk
        for _ in range(3):
            cur = ca.jacobian(cur, t) + ca.jacobian(cur, y) * fk
            derivs.append(cur)
        fact = [1, 1, 2, 6, 24]
        return {"y1": y1, "taylor4": sum(derivs[k] * h ** k / fact[k] for k in range(5))}

    T.append(_Trace("C10.rk4.order-conditions", [Free("c", len(idx), scale=1.0), Free("t", 1, scale=1.0), Free("y", 1, scale=1.0), Nilpotent("h", 4)], b3,
                    [Ob("step - exact solution = O(h^5): the h^0..h^4 Taylor coefficients agree", "y1", "taylor4", tol=1e-6)],
                    functions=[util.rk4], budget_s=900,
                    note="generic scalar field f(t,y) = sum_{i+j<=3} c_ij t^i y^j with symbolic c: consistency of order 4"))
    return T


def traces(tier="quick"):
    out = rk4_traces()
    for n in ([2, 3, 4] if tier == "quick" else [2, 3, 4, 5, 6]):
        out.append(predict_trace(n))
    for nx, ny in ([(3, 1), (4, 2)] if tier == "quick" else [(3, 1), (4, 2), (6, 1), (6, 2)]):
        out.append(correct_trace(nx, ny))
    for n in ([1, 2, 3, 4] if tier == "quick" else [1, 2, 3, 4, 5, 6]):
        out.append(ldl_trace(n))
        out.append(udu_trace(n))
    return out


def canaries(tier="quick"):
    def b(W, F, Q):
        Wd = util.sqrt_covariance_predict(W, F, Q)
        P = W @ W.T
        return {"lhs": Wd @ W.T + W @ Wd.T, "wrong": F @ P + P @ F.T + 2 * Q}

    return [_Trace("C10.canary.predict-2Q", [LowerTri("W", 2), Free("F", 2, 2), Sym("Q", 2)], b, [Ob("... = FP + PF^T + 2Q [false]", "lhs", "wrong")])]


MIN_OBLIGATIONS = {"quick": 40, "thorough": 60}
TRUSTED = ["A-GRAPH, A-REAL, own ring engine (see C01)",
           "ca.inv / ca.solve are INLINED: their SX results are part of the extracted graph, no external contract assumed for them",
           "ca.qr is used BY CONTRACT in sqrt_correct (A = QR, Q^T Q = I, R upper triangular): assumed, not verified (inlining its nested radicals did not terminate within 15 min)",
           "CasADi symbolic differentiation for the spec-side Taylor coefficients of the exact solution (rk4 order conditions)"]
ASSUMPTIONS = ["requires: W, Rs lower triangular with positive diagonal (invertible factors); P symmetric for LDL/UDU with nonzero pivots (divisors listed per path)",
               "sizes are Python loop bounds: each (n), (nx, ny) listed in coverage.contracts is proved for all inputs; 'for all n' is not claimed",
               "rk4: 'consistent fourth order' = the h^0..h^4 Taylor coefficients agree for a generic scalar polynomial field of degree 3 and for linear systems; smooth non-polynomial fields follow by the standard order-condition argument (not machine-checked)"]
