"""C01 — group axioms under to_Matrix.  Contracts on product / inverse / identity / to_Matrix /
from_Matrix of every exposed group (through the LieGroupElement operator sugar of base.py)."""
from __future__ import annotations

import casadi as ca

from cyverif.harness import Ob, cells
from cyverif.harness import Trace as _Trace
from . import spec
from .groups import make_groups, product_info

PARAM_ASSOC = {"SO2", "SE2", "R2", "R3", "SO3Quat", "SE3Quat", "SE23Quat"}


def fns_of(info):
    g = type(info.group)
    out = []
    for n in ("product", "inverse", "identity", "to_Matrix", "from_Matrix"):
        if hasattr(g, n):
            out.append(getattr(g, n))
    return out


def group_traces(info, tier):
    G = info.group
    n = info.name
    traces = []
    fns = fns_of(info)
    # requires: Euler angles outside the +-1e-3 rad gimbal band (property quantifier)
    pol = cells(series=None, gimbal="outside")

    def Trace(*a, **k):  # noqa: N802 - every trace of this property uses the same cell policy
        k.setdefault("decide", pol)
        return _Trace(*a, **k)

    mshape = tuple(G.matrix_shape)
    N = mshape[0]

    # --- to_Matrix against its independent spec, product homomorphism -----------------
    def b_hom(X, Y):
        ex, ey = G.elem(X), G.elem(Y)
        exy = ex * ey
        return {
            "M_X": ex.to_Matrix(),
            "M_X_spec": info.M_spec(X),
            "M_XY": exy.to_Matrix(),
            "MXMY": ex.to_Matrix() @ ey.to_Matrix(),
        }

    traces.append(Trace(
        f"C01.{n}.hom", [info.sort("X"), info.sort("Y")], b_hom,
        [Ob("to_Matrix=spec", "M_X", "M_X_spec"), Ob("hom: M(X*Y)=M(X)M(Y)", "M_XY", "MXMY"),
         Ob("matrix_shape", "M_X", mshape, kind="shape")],
        functions=fns))

    # --- inverse ----------------------------------------------------------------------
    def b_inv(X):
        ex = G.elem(X)
        ei = ex.inverse()
        return {"MiM": ei.to_Matrix() @ ex.to_Matrix(), "MMi": ex.to_Matrix() @ ei.to_Matrix(), "I": spec.I(N)}

    traces.append(Trace(f"C01.{n}.inv", [info.sort("X")], b_inv,
                        [Ob("inv-left: M(X^-1)M(X)=I", "MiM", "I"), Ob("inv-right: M(X)M(X^-1)=I", "MMi", "I")], functions=fns))

    # --- identity ---------------------------------------------------------------------
    def b_id(X):
        ex = G.elem(X)
        e = G.identity()
        out = {"M_e": e.to_Matrix(), "I": spec.I(N), "M_Xe": (ex * e).to_Matrix(), "M_eX": (e * ex).to_Matrix(), "M_X": ex.to_Matrix()}
        if info.name not in ("SO3Euler", "SE3Euler", "SE23Euler"):
            out.update({"Xe": (ex * e).param, "eX": (e * ex).param, "X": ex.param})
        return out

    obs = [Ob("id: M(e)=I", "M_e", "I"), Ob("neutral-right (matrix)", "M_Xe", "M_X"), Ob("neutral-left (matrix)", "M_eX", "M_X")]
    if info.so3 != "Euler" and info.kind != "product":
        # parameter level (for quaternions: same sign, for MRPs: same branch)
        obs += [Ob("neutral-right (param)", "Xe", "X"), Ob("neutral-left (param)", "eX", "X")]
    traces.append(Trace(f"C01.{n}.id", [info.sort("X")], b_id, obs, functions=fns))

    # --- associativity ----------------------------------------------------------------
    if n in PARAM_ASSOC:
        def b_assoc(X, Y, Z):
            a, b, c = G.elem(X), G.elem(Y), G.elem(Z)
            return {"L": ((a * b) * c).param, "R": (a * (b * c)).param}

        traces.append(Trace(f"C01.{n}.assoc", [info.sort("X"), info.sort("Y"), info.sort("Z")], b_assoc,
                            [Ob("assoc (param)", "L", "R")], functions=fns))
    elif tier == "thorough" or info.kind in ("so3",):
        def b_assoc_m(X, Y, Z):
            a, b, c = G.elem(X), G.elem(Y), G.elem(Z)
            return {"L": ((a * b) * c).to_Matrix(), "R": (a * (b * c)).to_Matrix()}

        if info.so3 in ("Mrp",) and info.kind == "so3":
            traces.append(Trace(f"C01.{n}.assoc", [info.sort("X"), info.sort("Y"), info.sort("Z")], b_assoc_m,
                                [Ob("assoc (matrix)", "L", "R")], functions=fns, budget_s=600))

    # --- from_Matrix is a right inverse of to_Matrix ----------------------------------
    has_from = True
    try:
        G.from_Matrix(ca.SX.sym("probe", *mshape))
    except NotImplementedError:
        has_from = False
    except Exception:
        has_from = True
    if has_from:
        def b_sect(X):
            ex = G.elem(X)
            M = ex.to_Matrix()
            back = G.from_Matrix(M)
            return {"M": M, "M_back": back.to_Matrix()}

        traces.append(Trace(f"C01.{n}.sect", [info.sort("X")], b_sect, [Ob("sect: M(from_Matrix(M(X)))=M(X)", "M_back", "M")],
                            functions=fns))
    return traces


QUICK_GROUPS = ["SO2", "SE2", "R2", "R3", "SO3Quat", "SO3Mrp", "SO3Dcm", "SO3Euler", "SE3Quat", "SE3Mrp", "SE23Quat", "SE23Mrp"]
THOROUGH_EXTRA = ["SE3Dcm", "SE3Euler", "SE23Dcm", "SE23Euler"]
# products whose non-last factors have group parameter count != algebra dimension (quaternion 4/3, DCM 9/3) exercise the
# parameter slicing with pairwise-distinct sizes
PRODUCTS_QUICK = [["SO3Mrp", "R3"], ["SO2", "R2"], ["SO3Quat", "R3"], ["SE3Quat", "SO3Mrp", "R2"], ["SO3Dcm", "SE2"]]
PRODUCTS_THOROUGH = [["SE3Quat", "SO3Mrp", "R3"], ["SO3Dcm", "R3"], ["SE2", "SO3Quat"], ["R3", "SE23Quat", "SO3Quat", "SO2"]]


def traces(tier="quick"):
    G = make_groups()
    out = []
    names = QUICK_GROUPS + (THOROUGH_EXTRA if tier == "thorough" else [])
    for n in names:
        out += group_traces(G[n], tier)
    prods = PRODUCTS_QUICK + (PRODUCTS_THOROUGH if tier == "thorough" else [])
    for p in prods:
        out += group_traces(product_info(p, G), tier)
    return out


def canaries(tier="quick"):
    """deliberately false obligations: must be refuted with a replayed witness on every run"""
    G = make_groups()
    out = []
    for n in ("SO3Quat", "SO3Mrp", "SE3Quat"):
        info = G[n]
        grp = info.group

        def b(X, Y, grp=grp):
            ex, ey = grp.elem(X), grp.elem(Y)
            return {"M_XY": (ex * ey).to_Matrix(), "MYMX": ey.to_Matrix() @ ex.to_Matrix()}

        out.append(_Trace(f"C01.canary.{n}.swapped-factors", [info.sort("X"), info.sort("Y")], b, [Ob("M(X*Y)=M(Y)M(X) [false]", "M_XY", "MYMX")]))
    return out


MIN_OBLIGATIONS = {"quick": 150, "thorough": 250}
TRUSTED = [
    "A-GRAPH: CasADi SX builds the node its operator names; Function.instruction_* reports the graph (cross-checked numerically on every trace)",
    "A-REAL: identities are decided over the reals with exact rational constants; floating-point rounding is not modelled here (see C06)",
    "own engine cyverif.ring/lower (normal forms in Q[atoms]/relations), kept honest by canaries on every run",
    "sympy.factor_list (used only to factor denominators/radicands; a wrong factorisation changes a normal form, it cannot make unequal things equal because products are re-expanded)",
]
ASSUMPTIONS = [
    "requires: MRP products away from the 360-degree singularity (denominator 1 + |a|^2|b|^2 - 2 a.b != 0)",
    "requires: Euler pitch outside the +-1e-3 rad gimbal band (band tests decided False by the cell policy)",
    "lemma L-SO3 (machine-checked in Lean 4 / mathlib, lemmas/SO3Surj.lean + lemmas/SO3Cover.lean): every orthonormal DCM of determinant 1 is R(q) for a unit quaternion q, unique up to sign",
    "Shepperd divisors 4*b_k are nonzero on their own branch (b_k^2 >= 1/4 there) - stated, discharged for C07",
    "direct products are checked for a finite list of configurations (named in coverage.contracts), each for all inputs",
]
