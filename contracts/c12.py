"""C12 — closed-loop estimator: only the two per-call clauses are decided here.

sens      : noise-free simulated accelerometer / magnetometer = R(r)^T (fixed world vector): they have the configured
            magnitude and rotate with the true attitude (eqs['sim'] measure_accel, measure_mag)
writeback : an accepted correction returns x+ = (exp(K r) * X).param on SO3Mrp x R3 in ALL SIX components; in particular
            every gyro-bias component receives its Kalman update (no component of the update is discarded)
The convergence clause (whole message history) is NOT decided by any contract here (see MANIFEST level_note)."""
from __future__ import annotations

import contextlib
import io

import casadi as ca

from cyverif.harness import Ob, cells
from cyverif.harness import Trace as _Trace
from cyverif.sorts import Angle, Composite, Const, Free, LowerTri, Pos
from . import spec
from .c14 import derive_with_stub, intercept_function

with contextlib.redirect_stdout(io.StringIO()):
    from cyecca.estimate.attitude.algorithms import mrp as est, sim
    from cyecca.estimate.attitude.algorithms import common
from cyecca import util

CLOSED = cells(series="closed")


def x_sort(name="x"):
    return Composite(name, [Free(name + "_r", 3, scale=0.5), Free(name + "_b", 3, scale=0.1)])


def sens_traces():
    T = []

    def b_acc(x, g):
        f = sim.measure_accel()
        y = f(x, g, 0, ca.SX.zeros(3, 1))
        return {"y": y, "spec": spec.R_mrp(x[0:3]).T @ ca.vertcat(0, 0, -g), "mag_sq": ca.dot(y, y), "g_sq": g * g}

    T.append(_Trace("C12.sim.measure_accel", [x_sort(), Pos("g")], b_acc, [
        Ob("noise-free accelerometer = R(r)^T (-g e3): rotates with the true attitude", "y", "spec"), Ob("|y| = g", "mag_sq", "g_sq")],
        functions=[sim.measure_accel], decide=CLOSED))

    def b_mag(x, mag_str, mag_decl, mag_incl):
        f = sim.measure_mag()
        y = f(x, mag_str, mag_decl, mag_incl, 0, ca.SX.zeros(3, 1))
        B_n = spec.Rz(mag_decl) @ spec.Ry(-mag_incl) @ ca.vertcat(mag_str, 0, 0)
        return {"y": y, "spec": spec.R_mrp(x[0:3]).T @ B_n, "mag_sq": ca.dot(y, y), "B_sq": mag_str * mag_str}

    T.append(_Trace("C12.sim.measure_mag", [x_sort(), Pos("mag_str"), Angle("mag_decl"), Angle("mag_incl")], b_mag, [
        Ob("noise-free magnetometer = R(r)^T Rz(decl) Ry(-incl) (B e1): rotates with the true attitude", "y", "spec"), Ob("|y| = mag_str", "mag_sq", "B_sq")],
        functions=[sim.measure_mag], decide=CLOSED, budget_s=300))
    return T


@contextlib.contextmanager
def stub_sqrt_correct(store, Y):
    """util.sqrt_correct by contract (C10): returns opaque (Wp lower-triangular, K, Ss) and records (Rs, H, W)"""
    real = util.sqrt_correct

    def stub(Rs, H, W):
        nx, ny = H.shape[1], H.shape[0]
        store.extend([Rs, H, ca.SX(W)])
        Wp = ca.tril(ca.reshape(Y[0:nx * nx], nx, nx))
        K = ca.reshape(Y[nx * nx:nx * nx + nx * ny], nx, ny)
        Ss = ca.tril(ca.reshape(Y[nx * nx + nx * ny:nx * nx + nx * ny + ny * ny], ny, ny))
        return Wp, K, Ss

    util.sqrt_correct = stub
    try:
        yield
    finally:
        util.sqrt_correct = real


def accepted(low, n):
    """cell: the correction is accepted (tests `ret == 0` decided True); series on the closed-form cell"""
    g = low.g
    op, args, _ = g.nodes[n]
    if op == "EQ":
        return True
    return CLOSED(low, n)


def writeback_traces():
    T = []
    for name, derive, ny, rname in (("correct_mag", est.correct_mag, 1, "r_mag"), ("correct_accel", est.correct_accel, 2, "r_accel")):
        nY = 36 + 6 * ny + ny * ny

        def b(Y, name=name, derive=derive, ny=ny, **kw):
            Yi = ca.SX.sym("Yi", nY)
            aux, n_out, n_cap = derive_with_stub(derive, name, stub_sqrt_correct, Yi)
            ins = [kw[k] for k in aux.name_in()[:-1]]
            res = aux(*ins, Y)
            x_out, r = res[0], res[3]
            K = ca.reshape(Y[36:36 + 6 * ny], 6, ny)
            upd = K @ r
            x = kw["i0"]
            return {"bias_out": x_out[3:6], "bias_spec": x[3:6] + upd[3:6]}

        # input sorts by position of the derived function's inputs
        if name == "correct_mag":
            ins = [("i0", x_sort("i0")), ("i1", LowerTri("i1", 6)), ("i2", Free("i2", 3)), ("i3", Free("i3", 1)), ("i4", Pos("i4")), ("i5", Pos("i5"))]
        else:
            ins = [("i0", x_sort("i0")), ("i1", LowerTri("i1", 6)), ("i2", Free("i2", 3)), ("i3", Pos("i3")), ("i4", Free("i4", 3)), ("i5", Pos("i5")),
                   ("i6", Pos("i6")), ("i7", Pos("i7"))]
        sorts = [s for _, s in ins] + [Free("Y", nY)]

        def build(name=name, derive=derive, ny=ny, nY=nY, n_in=len(ins), **kw):
            Yi = ca.SX.sym("Yi", nY)
            aux, n_out, n_cap = derive_with_stub(derive, name, stub_sqrt_correct, Yi)
            res = aux(*[kw[f"i{k}"] for k in range(n_in)], kw["Y"])
            x_out, r = res[0], res[3]
            K = ca.reshape(kw["Y"][36:36 + 6 * ny], 6, ny)
            upd = K @ r
            return {"bias_out": x_out[3:6], "bias_spec": kw["i0"][3:6] + upd[3:6]}

        def numeric_build(name=name, derive=derive, ny=ny, n_in=len(ins), **kw):
            with contextlib.redirect_stdout(io.StringIO()):
                f = derive()
            res = f(*[kw[f"i{k}"] for k in range(n_in)])
            x_out, W_out, r, code = res[0], res[1], res[3], res[5]
            # Kalman gain recomputed with the real square-root update on the same (Rs, H, W): through a second, recording run
            store = []
            real = util.sqrt_correct

            def rec(Rs, H, W):
                out = real(Rs, H, W)
                store.append(out[1])
                return out

            util.sqrt_correct = rec
            try:
                with intercept_function() as recf, contextlib.redirect_stdout(io.StringIO()):
                    derive()
            finally:
                util.sqrt_correct = real
            fi, fo = recf[name]
            Kf = ca.Function("K", fi, [store[0]])
            K = Kf(*[kw[f"i{k}"] for k in range(n_in)])
            upd = K @ r
            acc = ca.if_else(code == 0, 1, 0)
            return {"bias_out": acc * x_out[3:6], "bias_spec": acc * (kw["i0"][3:6] + upd[3:6])}

        num = _Trace(f"C12.{name}.writeback.numeric", [s for _, s in ins] + [Free("Y", nY)], numeric_build,
                     [Ob("accepted correction updates every gyro-bias component: b+ = b + (K r)[3:6]", "bias_out", "bias_spec", tol=1e-9)])
        T.append(_Trace(f"C12.{name}.writeback", sorts, build,
                        [Ob("accepted correction updates every gyro-bias component: b+ = b + (K r)[3:6]", "bias_out", "bias_spec")],
                        functions=[derive], decide=accepted, numeric=num, budget_s=300, definedness=False,
                        lemmas=["callee-contract C10.sqrt_correct (K is the Kalman gain)"],
                        note="sqrt_correct by contract (opaque K); R3 factor of exp(K r) * X is b + (K r)[3:6]"))
    return T


def canaries(tier="quick"):
    """engine canary: the accelerometer model with the wrong sign of gravity must be refuted with a witness"""
    def b_acc(x, g):
        f = sim.measure_accel()
        y = f(x, g, 0, ca.SX.zeros(3, 1))
        return {"y": y, "wrong": spec.R_mrp(x[0:3]).T @ ca.vertcat(0, 0, g)}

    return [_Trace("C12.canary.accel-sign", [x_sort(), Pos("g")], b_acc, [Ob("accelerometer = R^T (+g e3) [false]", "y", "wrong")], decide=CLOSED)]


def ingredient_traces():
    """per-call ingredient of the convergence clause that is a function contract: the covariance propagation of the filter
    uses the linearisation F of the TRUE (nav-frame, right-invariant) error dynamics, F = [[0, -C_nb], [0, 0]] (lemma
    L-ERRDYN: with R = exp(xi) R^ and b = b^ + beta, d/dt (R R^^T) = -R [beta]x R^^T, so xi' = -C_nb beta to first order),
    and the process noise Q it is documented to use.  This is C11's predict call-site trace, re-run under C12 because a
    wrong frame there leaves every per-call clause of C11's own statement intact while the bias never converges."""
    from . import c11
    t = c11.predict_trace()
    t.id = "C12.ingredient[C11.predict.call-sites]"
    return [t]


def traces(tier="quick"):
    return sens_traces() + writeback_traces() + ingredient_traces()


MIN_OBLIGATIONS = {"quick": 6, "thorough": 6}
LEVEL = "proof"
TRUSTED = ["A-GRAPH, A-REAL, own ring engine (see C01)"]
ASSUMPTIONS = ["ONLY the per-call clauses `sens`, `writeback` and the linearisation / noise arguments of the covariance propagation (lemma L-ERRDYN: exact part machine-checked in Lean 4 / mathlib, lemmas/ErrDyn.lean; first-order step stated) are decided; the clause 'the estimate converges / no NaN over the message history' is a whole-trajectory property and is not decided by any contract here",
               "callee contract of util.sqrt_correct from C10"]
