"""C16 — rigid-body invariants of the quadrotor model, for symbolic parameters (not only the defaults)."""
from __future__ import annotations

import contextlib
import io
import math

import casadi as ca

from cyverif.harness import Ob, PROVED, REFUTED, Result
from cyverif.harness import Trace as _Trace
from cyverif.ring import Frac
from cyverif.sorts import Angle, Angles, Composite, Const, Expr, Free, Pos, Sort, UnitQuat
from . import spec

with contextlib.redirect_stdout(io.StringIO()):
    from cyecca.models import quadrotor

MODEL = None


def model():
    global MODEL
    if MODEL is None:
        with contextlib.redirect_stdout(io.StringIO()):
            MODEL = quadrotor.derive_model()
    return MODEL


class SymFrame(Sort):
    """arm angles of a symmetric frame: arms 0/1 and 2/3 are opposite (r1 = -r0, r3 = -r2), stated on the
    direction cosines (cos, sin)(theta_1) = -(cos, sin)(theta_0); theta_0, theta_2 free base angles."""

    shape = (4, 1)

    def __init__(self, name):
        self.name = name

    def bind(self, low):
        R = low.R
        out = {}
        for k, (a, b) in enumerate([(0, 1), (2, 3)]):
            phi = R.gen(f"phi_{self.name}{a}")
            s = R.gen(f"s_{self.name}{a}")
            c = R.gen(f"c_{self.name}{a}")
            R.add_relation(R.index[f"s_{self.name}{a}"], 2, R.const(1) - c * c)
            low.register_angle(R.index[f"phi_{self.name}{a}"], s, c)
            phib = R.gen(f"phi_{self.name}{b}")
            low.register_angle(R.index[f"phi_{self.name}{b}"], Frac.of(R, -s), Frac.of(R, -c))
            out[(self.name, a, 0)] = Frac.of(R, phi)
            out[(self.name, b, 0)] = Frac.of(R, phib)
        return out

    def sample(self, rng):
        a, b = rng.uniform(-3, 3), rng.uniform(-3, 3)
        return [[a], [a + math.pi], [b], [b + math.pi]]


class ZeroSumDir(Sort):
    """spin directions with zero sum (two CCW, two CW in the default): dir_3 = -(dir_0 + dir_1 + dir_2)"""

    shape = (4, 1)

    def __init__(self, name):
        self.name = name

    def bind(self, low):
        R = low.R
        d = [R.gen(f"{self.name}{i}") for i in range(3)]
        out = {(self.name, i, 0): Frac.of(R, d[i]) for i in range(3)}
        out[(self.name, 3, 0)] = Frac.of(R, -(d[0] + d[1] + d[2]))
        return out

    def sample(self, rng):
        v = [rng.choice([-1.0, 1.0]) for _ in range(3)]
        return [[x] for x in v] + [[-sum(v)]]


class Repeat(Sort):
    """vector whose entries are all the same atom (equal arm lengths / equal rotor speeds)"""

    def __init__(self, name, n, positive=True):
        self.name, self.shape, self.positive = name, (n, 1), positive

    def bind(self, low):
        R = low.R
        v = R.gen(self.name + "_all", nonneg=self.positive)
        if self.positive:
            R.positive = getattr(R, "positive", set())
            R.positive.add(R.index[self.name + "_all"])
        return {(self.name, i, 0): Frac.of(R, v) for i in range(self.shape[0])}

    def sample(self, rng):
        x = rng.uniform(0.2, 2.0)
        return [[x]] * self.shape[0]


def p_sort(**over):
    parts = [
        over.get("tau_up", Pos("tau_up")), over.get("tau_down", Pos("tau_down")), over.get("dir_motor", Free("dir_motor", 4)),
        over.get("l_motor", Pos("l_motor", 4)), over.get("theta_motor", Angles("theta_motor", 4)),
        over.get("CT", Pos("CT")), over.get("CM", Pos("CM")), over.get("Cl_p", Free("Cl_p", 1)), over.get("Cm_q", Free("Cm_q", 1)),
        over.get("Cn_r", Free("Cn_r", 1)), over.get("CD0", Free("CD0", 1, nonneg=True)), over.get("S", Pos("S")), over.get("rho", Pos("rho")),
        over.get("g", Pos("g")), over.get("m", Pos("m")), over.get("Jx", Pos("Jx")), over.get("Jy", Pos("Jy")), over.get("Jz", Pos("Jz")),
        Free("noise", 12),
    ]
    return Composite("p", parts)


def x_sort(**over):
    return Composite("x", [over.get("pos", Free("pos", 3)), over.get("vel", Free("vel", 3)), over.get("q", UnitQuat("q")),
                           over.get("omega", Free("omega", 3)), over.get("om", Free("om", 4))])


def zeros(name, n):
    return Const(name, [[0]] * n)


FNS = [quadrotor.derive_model]


def speed_above_threshold(low, n):
    """requires |v| > 1e-5 m/s: the model's drag-direction fallback `fabs(V) > 1e-5` is decided True"""
    from fractions import Fraction
    g = low.g
    op, args, _ = g.nodes[n]
    if op == "LT" and g.op(args[0]) == "CONST" and g.payload(args[0]) == Fraction(1e-5):
        return True
    return None


def above_ground():
    """requires position z > 0: (x, y free, z positive)"""
    return Composite("pos", [Free("pos_xy", 2), Pos("pos_z")])


def spec_wrench(x, p):
    """independent spec of the non-gravitational force and of the moment in body axes"""
    pos, v, q, w, om = x[0:3], x[3:6], x[6:10], x[10:13], x[13:17]
    dirm, lm, th = p[2:6], p[6:10], p[10:14]
    CT, CM, Cl_p, Cm_q, Cn_r, CD0, S, rho, g, m = [p[14 + k] for k in range(10)]
    Rwb = spec.R_quat(q)
    ez = ca.vertcat(0, 0, 1)
    V = ca.sqrt(ca.dot(v, v))
    drag = -CD0 * (0.5 * rho * ca.dot(v, v)) * S * v / V
    ground_w = ca.if_else(pos[2] < 0, -1000 * pos[2] * ez - 1000 * (Rwb @ v), ca.SX.zeros(3, 1))
    F = Rwb.T @ ground_w + drag
    M = ca.SX.zeros(3, 1)
    for i in range(4):
        thrust = CT * om[i] * om[i]
        r = lm[i] * ca.vertcat(ca.cos(th[i]), ca.sin(th[i]), 0)
        F = F + thrust * ez
        M = M + ca.cross(r, thrust * ez) - CM * dirm[i] * thrust * ez + ca.vertcat(Cl_p * w[0], Cm_q * w[1], Cn_r * w[2]) * S * lm[i]
    return F, M, Rwb


def traces(tier="quick"):
    mdl = model()
    f, g_accel, g_gyro = mdl["f"], mdl["g_accel"], mdl["g_gyro"]
    T = []

    # ---- quaternion norm preserved -------------------------------------------------------------
    def b_norm(x, u, p):
        xd = f(x, u, p)
        return {"q_dot_qd": ca.dot(x[6:10], xd[6:10])}

    T.append(_Trace("C16.norm", [x_sort(), Free("u", 4), p_sort()], b_norm, [Ob("q . q' = 0", "q_dot_qd", None)], functions=FNS, max_paths=4096,
                    definedness=False))

    # ---- wrench: net force and moment = sum over rotors (+ modelled aero / ground terms) -----------
    def b_wrench(x, u, p):
        xd = f(x, u, p)
        v, w = x[3:6], x[10:13]
        m, Jx, Jy, Jz = p[23], p[24], p[25], p[26]
        g = p[22]
        J = ca.diag(ca.vertcat(Jx, Jy, Jz))
        F_spec, M_spec, Rwb = spec_wrench(x, p)
        # recover force and moment from the state derivative (Newton-Euler in body axes)
        F_tot = m * (xd[3:6] + ca.cross(w, v))
        M_tot = J @ xd[10:13] + ca.cross(w, J @ w)
        grav = Rwb.T @ ca.vertcat(0, 0, -m * g)
        acc = g_accel(x, u, p, ca.SX.zeros(3, 1), 1.0)
        return {"F_tot": F_tot, "F_spec": F_spec + grav, "M_tot": M_tot, "M_spec": M_spec, "pos_dot": xd[0:3], "Rv": Rwb @ v,
                "accel_m": m * acc, "F_nongrav": F_spec, "gyro": g_gyro(x, u, p, ca.SX.zeros(3, 1), 1.0), "w": w}

    speed_pos = Composite("vel", [Free("vel_xy", 2), Pos("vel_z")])  # |v| != 0 (drag direction defined); the V = 0 fallback is a separate path
    T.append(_Trace("C16.wrench", [x_sort(pos=above_ground()), Free("u", 4), p_sort()], b_wrench, [
        Ob("net force = rotor thrusts along body z + drag + gravity", "F_tot", "F_spec"),
        Ob("net moment = sum_i r_i x F_i - CM dir_i thrust_i e_z + aero damping", "M_tot", "M_spec"),
        Ob("position derivative = R(q) v", "pos_dot", "Rv"),
        Ob("accelerometer (noise-free) = specific force = non-gravitational force / m", "accel_m", "F_nongrav"),
        Ob("gyro (noise-free) = body rate", "gyro", "w")],
        functions=FNS, max_paths=4096, budget_s=600, decide=speed_above_threshold,
        note="above ground; requires |v| > 1e-5 (drag direction defined); the wX fallback branch for |v| <= 1e-5 multiplies a zero-drag-to-first-order term and is explored as its own path"))

    # ---- hover equilibrium -----------------------------------------------------------------------
    def m_fn(low):
        R = low.R
        return [[Frac.of(R, R.gen("CT_0") * R.gen("wh_all") * R.gen("wh_all") * 4) / Frac.of(R, R.gen("g_0"))]]

    class MExpr(Expr):
        def sample_joint(self, rng, vals):
            return None

    def b_hover(x, u, p):
        return {"xd": f(x, u, p)}

    # parts bound in order: CT, g, wh must exist before m is bound
    wh = Repeat("wh", 4)
    hover_x = x_sort(pos=above_ground(), vel=zeros("vel", 3), q=Const("q", [[1], [0], [0], [0]]), omega=zeros("omega", 3), om=wh)
    hover_p = p_sort(dir_motor=ZeroSumDir("dir_motor"), l_motor=Repeat("l_motor", 4), theta_motor=SymFrame("theta_motor"),
                     m=Expr("m", (1, 1), m_fn, None))

    class HoverInputs:
        pass

    def hover_sample(rng):
        pass

    # u = omega_motor: bind u to the same atoms as the rotor speeds
    u_eq = Expr("u", (4, 1), lambda low: [[Frac.of(low.R, low.R.gen("wh_all"))]] * 4, None)
    tr = _Trace("C16.hover", [hover_x, u_eq, hover_p], b_hover, [Ob("level hover with CT w^2 = m g / 4 per rotor is an equilibrium: x' = 0", "xd", None)],
                functions=FNS, max_paths=64, definedness=False,
                note="symmetric frame (opposite arms, equal lengths, zero-sum spin directions), m := 4 CT w^2 / g")
    # joint sampler (m depends on CT, g, w)
    def sample(rng, tr=tr):
        vals = {}
        vals["x"] = hover_x.sample(rng)
        w = vals["x"][13][0]
        vals["u"] = [[w]] * 4
        pv = []
        for part in hover_p.parts:
            if part.name == "m":
                pv.append(None)
            else:
                pv.extend(part.sample(rng))
        idx = pv.index(None)
        CTv, gv = pv[14][0], pv[22][0]
        pv[idx] = [4 * CTv * w * w / gv]
        vals["p"] = pv
        return vals
    tr.sample = sample
    T.append(tr)

    # ---- free fall: accelerometer reads zero ---------------------------------------------------------
    def b_ff(x, u, p):
        return {"acc": g_accel(x, u, p, ca.SX.zeros(3, 1), 1.0)}

    T.append(_Trace("C16.freefall", [x_sort(pos=above_ground(), om=zeros("om", 4)), Free("u", 4), p_sort(CD0=zeros("CD0", 1))], b_ff,
                    [Ob("rotors off, no drag, above ground: accelerometer = 0", "acc", None)], functions=FNS, max_paths=64, definedness=False))

    # ---- symmetric frame, equal speeds: zero rotor moment ----------------------------------------------
    def b_sym(x, u, p):
        xd = f(x, u, p)
        w = x[10:13]
        J = ca.diag(ca.vertcat(p[24], p[25], p[26]))
        return {"M_tot": J @ xd[10:13] + ca.cross(w, J @ w)}

    T.append(_Trace("C16.symmetric", [x_sort(om=Repeat("om", 4)), Free("u", 4),
                                      p_sort(dir_motor=ZeroSumDir("dir_motor"), l_motor=Repeat("l_motor", 4), theta_motor=SymFrame("theta_motor"),
                                             Cl_p=zeros("Cl_p", 1), Cm_q=zeros("Cm_q", 1), Cn_r=zeros("Cn_r", 1))], b_sym,
                    [Ob("equal rotor speeds on a symmetric frame produce zero moment", "M_tot", None)], functions=FNS, max_paths=4096, definedness=False))

    # ---- equivariance under yaw rotations of the world frame ---------------------------------------------
    def b_yaw(x, u, p, half):
        c, s = ca.cos(half), ca.sin(half)
        qpsi = ca.vertcat(c, 0, 0, s)
        Rz = spec.R_quat(qpsi)

        def qmul(a, b):
            return ca.vertcat(a[0] * b[0] - a[1] * b[1] - a[2] * b[2] - a[3] * b[3], a[1] * b[0] + a[0] * b[1] - a[3] * b[2] + a[2] * b[3],
                              a[2] * b[0] + a[3] * b[1] + a[0] * b[2] - a[1] * b[3], a[3] * b[0] - a[2] * b[1] + a[1] * b[2] + a[0] * b[3])

        xr = ca.vertcat(Rz @ x[0:3], x[3:6], qmul(qpsi, x[6:10]), x[10:17])
        xd, xdr = f(x, u, p), f(xr, u, p)
        return {"lhs": xdr, "rhs": ca.vertcat(Rz @ xd[0:3], xd[3:6], qmul(qpsi, xd[6:10]), xd[10:17])}

    T.append(_Trace("C16.yaw-equivariance", [x_sort(), Free("u", 4), p_sort(), Angle("half", 1)], b_yaw,
                    [Ob("f(R_psi x) = R_psi f(x) for rotations of the world about the vertical", "lhs", "rhs")], functions=FNS, max_paths=4096,
                    budget_s=600, definedness=False))

    # ---- motor relaxation ------------------------------------------------------------------------------
    def b_motor(x, u, p):
        xd = f(x, u, p)
        e = u - x[13:17]
        return {"prod": e * xd[13:17], "zero": ca.SX.zeros(4, 1), "up": e / p[0], "down": e / p[1], "dom": xd[13:17]}

    class MotorTrace(_Trace):
        pass

    T.append(_Trace("C16.motor.monotone", [x_sort(), Free("u", 4), p_sort()], b_motor,
                    [Ob("(cmd - w) w' >= 0: each motor speed moves toward its command", "prod", "zero", kind="ge")],
                    functions=FNS, max_paths=4096, definedness=False))
    return T


class MotorLaw:
    """w'_i = (cmd_i - w_i)/tau_up when cmd_i > w_i else (cmd_i - w_i)/tau_down  (SMT over the extracted graph)"""
    id = "C16.motor.law"
    functions = FNS

    def __init__(self):
        import z3
        from cyverif.smtjob import Goal, SmtJob
        f = model()["f"]

        def build(x, u, p):
            return {"dom": f(x, u, p)[13:17]}

        def goal(V, O):
            parts = []
            for i in range(4):
                e = V["u"][i][0] - V["x"][13 + i][0]
                d = O["dom"][i][0]
                parts.append(z3.If(e > 0, d * V["p"][0][0] == e, d * V["p"][1][0] == e))
            return z3.And(parts)

        def num(vin, vout):
            ok = True
            for i in range(4):
                e = vin["u"][i][0] - vin["x"][13 + i][0]
                tau = vin["p"][0][0] if e > 0 else vin["p"][1][0]
                ok = ok and abs(vout["dom"][i][0] * tau - e) <= 1e-9 * (1 + abs(e))
            return ok

        self.job = SmtJob(self.id, [Free("x", 17), Free("u", 4), Free("p", 39)], build,
                          lambda V: [V["p"][0][0] > 0, V["p"][1][0] > 0], [Goal("first-order lag with spin-up / spin-down time constant", goal, num, 60)],
                          functions=FNS)

    def run(self, seed=0):
        return self.job.run(seed)

    def replay(self, w):
        return self.job.replay(w)


class FrameXY:
    """equivariance under horizontal translations: no output of f / g_accel / g_gyro depends on position x, y"""
    id = "C16.translation-invariance"
    functions = FNS

    def run(self, seed=0):
        from cyverif import ir
        mdl = model()
        x, u, p = ca.SX.sym("x", 17), ca.SX.sym("u", 4), ca.SX.sym("p", 39)
        z3_ = ca.SX.zeros(3, 1)
        outs = {"f": mdl["f"](x, u, p), "acc": mdl["g_accel"](x, u, p, z3_, 1.0), "gyro": mdl["g_gyro"](x, u, p, z3_, 1.0)}
        g, on, _ = ir.extract({"x": x, "u": u, "p": p}, outs)
        roots = [n for k in on for row in on[k] for n in row if n is not None]
        sup = g.support(roots)
        bad = [s for s in sup if s[0] == "x" and s[1] in (0, 1)]
        ok = not bad
        return [Result(self.id, "frame: outputs do not depend on position x, y", PROVED if ok else REFUTED, "STRUCT", "", 0.0,
                       f"support of the outputs: {len(sup)} input entries, none of x[0], x[1]" if ok else f"depends on {bad}",
                       None if ok else {"inputs": {}}, 1)]

    def replay(self, w):
        r = self.run()[0]
        return r.status != PROVED, r.detail


def jobs(tier="quick"):
    return [FrameXY(), MotorLaw()]


def canaries(tier="quick"):
    mdl = model()
    f = mdl["f"]

    def b(x, u, p):
        xd = f(x, u, p)
        return {"bad": ca.dot(x[6:10], xd[6:10]) + xd[10]}

    return [_Trace("C16.canary.norm-plus-rate", [x_sort(), Free("u", 4), p_sort()], b, [Ob("q.q' + p' = 0 [false]", "bad", None)], max_paths=4096, definedness=False)]


MIN_OBLIGATIONS = {"quick": 12, "thorough": 12}
TRUSTED = ["A-GRAPH, A-REAL, own ring engine (see C01)", "z3 for the motor-law and monotonicity obligations"]
ASSUMPTIONS = ["requires positive mass, inertias, time constants, arm lengths, CT, CM, S, rho, g; CD0 >= 0",
               "symmetric frame = opposite arm pairs (direction cosines negated), equal arm lengths, spin directions summing to zero",
               "above ground = position z > 0 (the model's ground-contact branch is the other path)",
               "wrench: requires speed |v| > 1e-5 m/s (below it the model applies its drag along a fixed axis; dynamic pressure there is < 1e-10 rho)"]
