"""C06, floating-point clause, RIGOROUS part: |fl(F)(w) - F_exact(w)| <= 1e-9 for every consumer F below, every w with
rotation components in [-1, 1] (hence every rotation magnitude up to 1 rad, and beyond) and other inputs in [-1, 1].

Method (standard floating-point model, assumption A-FP):
 1. per series entry: forward error analysis (cyverif.fperr) of BOTH branches of the real Function on a geometric
    subdivision of the argument range [0, 3.1]: delta_k(arg) >= |fl(c_k)(arg~) - c_k(arg)| including a relative input
    perturbation of 8U; plus the rigorous truncation bound on the Taylor branch (C06 layer 1);
 2. per consumer: the series tables are replaced by opaque coefficients c_j; on each max-norm shell rho_i < |w_rot|_inf <=
    rho_(i+1) the coefficient enclosures and errors for the shell's argument range are fed into the same error analysis of
    the consumer's own graph G(c, w) over the box; the bound is the maximum over shells and outputs.
 The switch is covered from both sides because each coefficient's error is the maximum of both branches wherever the
 floating-point argument could select either of them."""
from __future__ import annotations

import math
import time
import traceback
from fractions import Fraction

import casadi as ca

from cyverif import fperr, ir
from cyverif.harness import ERROR, PROVED, REFUTED, UNDECIDED, Result
from cyverif.interval import IV, dn, eval_iv, up
from cyverif.taylor import TaylorError
from cyecca import symbolic
from cyecca.symbolic import SERIES, SQUARED_SERIES

from .taylor_cell import entry_bounds, lie_consumers, record_series, stub_series

U = fperr.U
EPS = 1e-3
A_MAX = 6.0
ETA_SUB = 2.5e-3
REL_IN = 64 * U  # relative perturbation of a series argument assumed by the per-entry tables (checked per shell)
TARGET = 1e-9

_tables = {}
_graphs = {}
_thr = {}


def entry_table(table, key):
    """list of (lo, hi, err, mag) over the argument range; err covers both branches where either may be selected"""
    ck = (table, key)
    if ck in _tables:
        return _tables[ck]
    from .c06 import entry_graph, split_branches
    F = (SQUARED_SERIES if table == "SQUARED_SERIES" else SERIES)[key]
    g, n = entry_graph(F)
    br = split_branches(g, n)
    if br is None:
        raise TaylorError(f"{key}: unexpected entry structure")
    c, T, C = br
    # the switch threshold is read from the real graph (a changed threshold changes the analysed ranges)
    thr = float(g.payload(g.args(c)[1])) if g.op(g.args(c)[1]) == "CONST" else EPS
    _thr[ck] = thr
    _graphs[ck] = (g, T, C)
    rows = []

    plain = table == "SERIES"

    def run(node, lo, hi):
        e_max, m_max = 0.0, 0.0
        first = True
        for (a_, b_) in ([(lo, hi), (-hi, -lo)] if plain else [(lo, hi)]):  # plain entries take signed arguments
            env = {("x", 0, 0): IV(a_, b_)}
            er = {("x", 0, 0): REL_IN * max(abs(a_), abs(b_))}
            m = fperr.analyse(g, [node], env, er)
            v, e = m[node]
            e_max = max(e_max, e)
            m_max = v if first else m_max.hull(v)
            first = False
        return e_max, m_max

    # Taylor branch: [0, thr (1 + 1e-9)]
    k = 24
    edges = [0.0] + [thr * (1 + 1e-9) * (j / k) for j in range(1, k + 1)]
    for a, b in zip(edges, edges[1:]):
        e, mg = run(T, a, b)
        rows.append((a, b, e, mg, "T"))
    # closed-form branch: [thr (1 - 1e-9), A_MAX]
    a = thr * (1 - 1e-9)
    while a < A_MAX:
        b = min(a * (1 + ETA_SUB), A_MAX)
        e, mg = run(C, a, b)
        rows.append((a, b, e, mg, "C"))
        a = b
    _tables[ck] = rows
    return rows


def coef_error(table, key, lo, hi):
    """(max error, value enclosure) of the computed coefficient for arguments in [lo, hi] (plain table: |arg|)"""
    rows = entry_table(table, key)
    if hi > A_MAX:
        return math.inf, IV(-math.inf, math.inf)
    hit = [r for r in rows if not (r[1] < lo or r[0] > hi)]
    if not hit:
        return math.inf, IV(-math.inf, math.inf)
    e = max(r[2] for r in hit)
    mg = None
    if len(hit) <= 4:
        # narrow argument range: enclose the value on the range itself rather than on whole table rows
        g, T, C = _graphs[(table, key)]
        for a, b, er, m, tag in hit:
            x0, x1 = max(a, lo), min(b, hi)
            for (p0, p1) in ([(x0, x1), (-x1, -x0)] if table == "SERIES" else [(x0, x1)]):
                v = eval_iv(g, [T if tag == "T" else C], {("x", 0, 0): IV(p0, p1)})[T if tag == "T" else C]
                mg = v if mg is None else mg.hull(v)
    else:
        for a, b, er, m, tag in hit:
            mg = m if mg is None else mg.hull(m)
    return e, mg


_tf_cache = {}


def _tf(table, key, hi):
    """Taylor form (in z: the entry's argument, or its square root for the squared table) of the closed-form branch,
    valid on |z| <= r for the smallest bucket radius r >= the given argument bound"""
    from .c06 import tf_eval, N_ORDER
    from cyverif.taylor import TF
    squared = table == "SQUARED_SERIES"
    rr = math.sqrt(hi) if squared else hi
    r = 1e-3
    while r < rr:
        r *= 1.3
    ck = (table, key, r)
    if ck not in _tf_cache:
        entry_table(table, key)
        g, T, C = _graphs[(table, key)]
        try:
            z = TF.var(N_ORDER, Fraction(r).limit_denominator(10 ** 9) + Fraction(1, 10 ** 9))
            _tf_cache[ck] = tf_eval(g, C, z, squared)
        except TaylorError:
            _tf_cache[ck] = None
    return _tf_cache[ck]


def tf_lipschitz(table, key, lo, hi):
    """(L, rem, V): |f(a) - f(b)| <= L |a - b| + rem and f(a) in V for arguments a, b in [lo, hi] (|.| for the plain table),
    f the analytic function of the entry; None when the Taylor form does not converge on the range"""
    tf = _tf(table, key, hi)
    if tf is None:
        return None
    squared = table == "SQUARED_SERIES"
    r = float(tf.r)
    c = [float(abs(x)) * (1 + 1e-15) for x in tf.c]
    rem = 2 * float(tf.R) * r ** (tf.N + 1) * (1 + 1e-12)
    if squared:
        if any(tf.c[i] != 0 for i in range(1, tf.N + 1, 2)):
            return None
        L = sum((i // 2) * c[i] * r ** (i - 2) for i in range(2, tf.N + 1, 2))
        z = IV(math.sqrt(max(lo, 0.0)) * (1 - 1e-15), math.sqrt(hi) * (1 + 1e-15))
    else:
        L = sum(i * c[i] * r ** (i - 1) for i in range(1, tf.N + 1))
        z = IV(lo, hi)
    V = None
    for zz in ([z, -z] if not squared else [z]):
        acc = IV(0.0)
        for x in reversed(tf.c):  # interval Horner; coefficients enclosed to 1 ulp
            xf = float(x)
            acc = acc * zz + IV(dn(xf), up(xf))
        acc = acc + IV(-rem, rem)
        V = acc if V is None else V.hull(acc)
    return L * (1 + 1e-12), rem, V


def coef_error_abs(table, key, hi, e_in):
    """first shell (arguments in [0, hi], hi below the switch): Taylor branch with an ABSOLUTE input error e_in"""
    from .c06 import entry_graph, split_branches
    F = (SQUARED_SERIES if table == "SQUARED_SERIES" else SERIES)[key]
    g, n = entry_graph(F)
    c, T, C = split_branches(g, n)
    entry_table(table, key)
    hi = min(hi, _thr[(table, key)] * (1 + 1e-9))
    e_max, m_max = 0.0, None
    k = 8
    for j in range(k):
        a_, b_ = hi * j / k, hi * (j + 1) / k
        for (x0, x1) in ([(a_, b_), (-b_, -a_)] if table == "SERIES" else [(a_, b_)]):
            m = fperr.analyse(g, [T], {("x", 0, 0): IV(x0, x1)}, {("x", 0, 0): e_in})
            v, e = m[T]
            e_max = max(e_max, e)
            m_max = v if m_max is None else m_max.hull(v)
    return e_max, m_max


def coef_error_range_abs(table, key, lo, hi, e_in):
    """both branches as selected on [lo, hi] with an ABSOLUTE input error e_in (used when the argument's error is not
    small relative to the argument: first shell, arguments obtained through acos, ...)"""
    from .c06 import entry_graph, split_branches
    F = (SQUARED_SERIES if table == "SQUARED_SERIES" else SERIES)[key]
    g, n = entry_graph(F)
    c, T, C = split_branches(g, n)
    entry_table(table, key)
    thr = _thr[(table, key)]
    if hi > A_MAX:
        return math.inf, IV(-math.inf, math.inf)
    e_max, m_max = 0.0, None
    pieces = []
    if lo < thr * (1 + 1e-9):
        t_hi = min(hi, thr * (1 + 1e-9))
        k = 8
        for j in range(k):
            pieces.append((T, lo + (t_hi - lo) * j / k, lo + (t_hi - lo) * (j + 1) / k))
    if hi > thr * (1 - 1e-9):
        x = max(lo, thr * (1 - 1e-9) - 4 * e_in)
        x = max(x, thr * 0.5)
        while x < hi:
            y = min(x * (1 + 4 * ETA_SUB), hi)
            pieces.append((C, x, y))
            x = y
    for node, x0, x1 in pieces:
        for (p0, p1) in ([(x0, x1), (-x1, -x0)] if table == "SERIES" else [(x0, x1)]):
            m = fperr.analyse(g, [node], {("x", 0, 0): IV(p0, p1)}, {("x", 0, 0): e_in})
            v, e = m[node]
            e_max = max(e_max, e)
            m_max = v if m_max is None else m_max.hull(v)
    return e_max, (m_max if m_max is not None else IV(-math.inf, math.inf))


def consumer_functions(name):
    """the real functions a consumer name stands for (reported under functions_under_contract with their source hash)"""
    import cyecca.lie.group_so3 as m3, cyecca.lie.group_se3 as m6, cyecca.lie.group_se23 as m9, cyecca.lie.group_se2 as m2
    ns = {}
    for m in (m3, m6, m9, m2):
        ns.update(vars(m))
    out = [symbolic.taylor_series_near_zero]
    n = name.replace("conv ", "")
    parts = n.replace(")", "").split("(")
    head = parts[0]
    if "." in head:
        o, meth = head.split(".", 1)
        o = {"Quat": "SO3Quat", "Mrp": "SO3Mrp", "Dcm": "SO3Dcm", "Euler": "SO3EulerB321"}.get(o, o)
        obj = ns.get(o)
        if obj is not None and hasattr(type(obj), meth):
            out.append(getattr(type(obj), meth))
        if meth == "calculate_N":
            out.append(type(obj).exp_mixed)
        if len(parts) > 1 and parts[1] == "exp" and obj is not None:
            for cand in (obj, ns.get("SO3" + o[-4:] if o.startswith("SE") and o[-4:] == "Quat" else ""), ns.get("SO3Mrp") if o.endswith("Mrp") else None):
                if cand is not None and hasattr(type(cand), "exp") and getattr(type(cand), "exp") not in out:
                    out.append(getattr(type(cand), "exp"))
    return out


R_CORE = 1e-7
_trunc_cache = {}


def _trunc(table, key):
    if (table, key) not in _trunc_cache:
        _trunc_cache[(table, key)] = entry_bounds(table, key, EPS)[0]
    return _trunc_cache[(table, key)]


def shell_edges(r_max):
    edges = [0.0, R_CORE]
    r = R_CORE
    while r < 0.004:
        r = min(r * 2.0, 0.004)
        edges.append(r)
    edges += [0.008, 0.012, 0.016, 0.02, 0.024, 0.028, 0.0316, 0.034, 0.038, 0.044, 0.052, 0.0633, 0.075]
    r = 0.075
    while r < r_max:
        r = min(r * 1.22, r_max)
        edges.append(r)
    return [e for e in edges if e <= r_max]


def regions(ndim, r_max, nsub, edges=None):
    """boxes (list of (lo, hi) per rotation component) whose union contains the closed ball |w|_2 <= r_max:
    the core cube [-R_CORE, R_CORE]^n and, per max-norm shell (r0, r1], the 2n slabs {w_k in +-[r0, r1], |w_j| <= r1};
    slabs of the outer shells are cut into nsub pieces per other component, pieces entirely outside the ball are skipped"""
    e = edges or shell_edges(r_max)
    yield (0.0, e[1]), [(-e[1], e[1])] * ndim
    for r0, r1 in zip(e[1:], e[2:]):
        for k in range(ndim):
            for sgn in (1, -1):
                base = (r0, r1) if sgn > 0 else (-r1, -r0)
                others = [j for j in range(ndim) if j != k]
                if r1 <= 0.2 or not others:
                    box = [(-r1, r1)] * ndim
                    box[k] = base
                    yield (r0, r1), box
                    continue
                cuts = [-r1 + 2 * r1 * i / nsub for i in range(nsub + 1)]
                import itertools
                for idx in itertools.product(range(nsub), repeat=len(others)):
                    box = [None] * ndim
                    box[k] = base
                    n2 = r0 * r0
                    for j, i in zip(others, idx):
                        box[j] = (cuts[i], cuts[i + 1])
                        n2 += 0.0 if cuts[i] <= 0 <= cuts[i + 1] else min(abs(cuts[i]), abs(cuts[i + 1])) ** 2
                    if n2 > r_max * r_max * (1 + 1e-9):
                        continue
                    yield (r0, r1), box


class FPJob:
    r_max = 1.0
    max_depth = 9
    max_boxes = 200000

    def __init__(self, name, n_in, rot, build, other=1.0, nsub=4):
        self.id = f"C06.fp[{name}]"
        self.name, self.n_in, self.rot, self.build = name, n_in, rot, build
        self.other, self.nsub = other, nsub
        self.functions = consumer_functions(name)
        self.lemmas = ["A-FP standard floating-point model", "L-TAYLOR"]
        self.assumptions = ["A-FP: IEEE doubles, round to nearest, U = 2^-53; libm sin/cos/tan/atan/asin/acos/atan2/pow within 1 ulp; sqrt correctly rounded"]

    def run(self, seed=0):
        t0 = time.time()
        try:
            w = ca.SX.sym("w", self.n_in)
            calls = []
            with stub_series(calls):
                built = self.build(w)
            hint_list = []
            if isinstance(built, dict):
                hint_list = built.get("hints", [])
                built = built["out"]
            out = ca.vec(ca.SX(built))
            outs = {"out": out}
            ins = {"w": w}
            if calls:
                ins["c"] = ca.vertcat(*[s for _, _, _, s in calls])
                outs["args"] = ca.vertcat(*[a for _, _, a, _ in calls])
            for k, (hx, alt, why) in enumerate(hint_list):
                outs[f"hint{k}"] = ca.SX(hx)
                if not isinstance(alt, (int, float)):
                    outs[f"alt{k}"] = ca.SX(alt)
            g, on, n_instr = ir.extract(ins, outs)
            arg_nodes = [row[0] for row in on["args"]] if calls else []
            out_nodes = [row[0] for row in on["out"]]
            guards = fperr.use_guards(g, out_nodes + arg_nodes)
            hints = {}
            anc = g.ancestors([n for n in out_nodes if n is not None])
            # call sites whose coefficient does not reach any output (dead code in the real function) are not analysed
            live = [("INPUT", (), ("c", j, 0)) in g.index and g.index[("INPUT", (), ("c", j, 0))] in anc for j in range(len(calls))]
            if hint_list:
                for k, (hx, alt, why) in enumerate(hint_list):
                    hn = on[f"hint{k}"][0][0]
                    if hn not in anc:
                        raise TaylorError(f"hint {k} ({why}) does not name a node of the analysed graph")
                    hints[hn] = IV(float(alt)) if isinstance(alt, (int, float)) else on[f"alt{k}"][0][0]
            a, b = self.rot
            worst = (0.0, None)
            undec = None
            n_regions = 0
            n_split = 0
            at_switch = [False]
            worst_switch = 0.0
            n_switch = 0

            def analyse_box(rbox, dbg=None):
                """max error bound over the outputs on this box (inf when some output cannot be bounded)"""
                env_val = {("w", i, 0): IV(-self.other, self.other) for i in range(self.n_in)}
                for i in range(a, b):
                    env_val[("w", i, 0)] = IV(*rbox[i - a])
                env_err = {}
                memo = {}
                at_switch[0] = False
                # coefficient call sites in creation order: the argument of a later one may depend on earlier coefficients
                for j, (table, key, arg, s) in enumerate(calls):
                    n = arg_nodes[j]
                    if not live[j]:
                        continue
                    if n is None:
                        av, earg = IV(0.0), 0.0
                    else:
                        fperr.analyse(g, [n], env_val, env_err, memo, hints, guards)
                        av, earg = memo[n]
                    if not math.isfinite(earg) or not av.finite():
                        return math.inf, -1
                    hi = av.mag() + earg
                    lo = max(av.mig() - earg, 0.0)
                    entry_table(table, key)
                    thr = _thr[(table, key)]
                    if lo > 0 and earg <= REL_IN * lo:
                        e, mg = coef_error(table, key, lo * (1 - 1e-9), hi * (1 + 1e-9))
                    else:
                        e, mg = coef_error_range_abs(table, key, lo, hi * (1 + 1e-9), earg)
                        # second bound: |fl(branch)(y~) - f(y)| <= |fl(branch)(y~) - f(y~)| + |f(y~) - f(y)|, the last term
                        # by the Lipschitz constant of the analytic function (Taylor form with rigorous remainder)
                        lip = tf_lipschitz(table, key, lo, hi * (1 + 1e-9))
                        if lip is not None:
                            L, rem, V = lip
                            e0, mg0 = coef_error(table, key, lo, hi * (1 + 1e-9))
                            e2 = e0 + L * earg + rem
                            if e2 < e:
                                e = e2
                            mlo, mhi = max(mg.lo, V.lo, mg0.lo), min(mg.hi, V.hi, mg0.hi)
                            if mlo <= mhi:
                                mg = IV(mlo, mhi)
                    if lo <= thr * (1 + 1e-6) and hi >= thr * (1 - 1e-6):
                        at_switch[0] = True  # both branches of this coefficient are selected somewhere on the box
                    if lo <= thr * (1 + 1e-6):
                        if thr > EPS * (1 + 1e-9):
                            raise TaylorError(f"{key}: switch threshold {thr} above the cell of the truncation lemma")
                        e += _trunc(table, key)  # truncation of the Taylor branch (lemma proved on |arg| < 1e-3)
                    env_val[("c", j, 0)] = IV(mg.lo - e, mg.hi + e) if math.isfinite(e) else mg
                    env_err[("c", j, 0)] = e
                fperr.analyse(g, out_nodes, env_val, env_err, memo, hints, guards)
                if dbg is not None:
                    dbg(g, memo, env_val, env_err, calls, out_nodes)
                best = (0.0, -1)
                for i, n in enumerate(out_nodes):
                    if n is None:
                        continue
                    e = memo[n][1]
                    if not math.isfinite(e):
                        return math.inf, i
                    if e > best[0]:
                        best = (e, i)
                return best

            if getattr(self, "debug_box", None):
                return analyse_box(self.debug_box, self.debug_fn)
            for (r0, r1), rbox0 in regions(b - a, self.r_max, self.nsub):
                stack = [(rbox0, 0)]
                while stack:
                    rbox, depth = stack.pop()
                    n_regions += 1
                    e, i = analyse_box(rbox)
                    if e <= (TARGET / 2 if at_switch[0] else TARGET):
                        if e > worst[0]:
                            worst = (e, (r0, r1, i), rbox)
                        if at_switch[0]:
                            n_switch += 1
                            worst_switch = max(worst_switch, e)
                        continue
                    # adaptive bisection of the widest rotation component (interval dependency shrinks with the box);
                    # the core cube and the inner shells are not split below a relative width of 1/64
                    k = max(range(len(rbox)), key=lambda j: rbox[j][1] - rbox[j][0])
                    if depth >= self.max_depth or n_regions > self.max_boxes:
                        if math.isfinite(e):
                            worst = (e, (r0, r1, i), rbox)
                        else:
                            undec = (rbox, i)
                        stack = []
                        break
                    n_split += 1
                    mid = 0.5 * (rbox[k][0] + rbox[k][1])
                    for half in ((rbox[k][0], mid), (mid, rbox[k][1])):
                        nb = list(rbox)
                        nb[k] = half
                        n2 = sum(0.0 if lo_ <= 0 <= hi_ else min(abs(lo_), abs(hi_)) ** 2 for lo_, hi_ in nb)
                        if n2 > self.r_max ** 2 * (1 + 1e-9):
                            continue
                        stack.append((nb, depth + 1))
                if undec or worst[0] > TARGET:
                    break
            rm = self.r_max
            if undec:
                return [Result(self.id, "floating-point bound", UNDECIDED, "FPERR", "", time.time() - t0,
                               f"analysis cannot bound output {undec[1]} on region {undec[0]} (divisor enclosure contains 0 / unsupported operation)")]
            if worst[0] > TARGET:
                # an over-approximate bound above the target decides nothing by itself (the bounded sweeps look for real violations)
                return [Result(self.id, "floating-point bound", UNDECIDED, "FPERR", "", time.time() - t0,
                               f"rigorous bound {worst[0]:.3e} exceeds 1e-9 on box {[(round(x, 6), round(y, 6)) for x, y in worst[2]] if worst[1] else None}: not a refutation (over-approximation)")]
            return [Result(self.id, f"{self.name}: |double-precision value - exact value| <= 1e-9 for every rotation vector of magnitude <= {rm} rad, and <= 5e-10 on every box where a coefficient can take either branch (so the jump across a switch is <= 1e-9); other inputs in [-1, 1]",
                           PROVED, "FPERR", "", time.time() - t0,
                           f"rigorous bound {worst[0]:.3e} (worst shell rho in {worst[1][:2] if worst[1] else None}), {worst_switch:.3e} on the {n_switch} boxes containing a switch; {sum(live)} live coefficient call sites, {n_regions} boxes covering the ball ({n_split} adaptive bisections), {n_instr} instructions",
                           None, len(out_nodes))]
        except TaylorError as e:
            return [Result(self.id, "floating-point bound", UNDECIDED, "FPERR", "", time.time() - t0, str(e))]
        except Exception as e:
            return [Result(self.id, "floating-point bound", ERROR, "FPERR", "", time.time() - t0, f"{type(e).__name__}: {e}\n{traceback.format_exc(limit=5)}")]

    def replay(self, w):
        r = self.run()[0]
        return r.status == REFUTED, r.detail


FP_CONSUMERS = ["so3.left_jacobian", "so3.left_jacobian_inv", "so3.right_jacobian", "so3.right_jacobian_inv", "SO3Quat.exp", "SO3Mrp.exp", "SO3Dcm.exp",
                "se3.left_Q", "se3.left_jacobian", "se3.right_jacobian", "se3.left_jacobian_inv", "se3.right_jacobian_inv", "SE3Quat.exp", "SE3Mrp.exp",
                "se23.left_jacobian", "se23.right_jacobian", "se23.left_jacobian_inv", "SE2.exp", "SE3Quat.Ad(exp)"]


HINT_UNIT = "C06.hint.unit-quaternion[<group>.exp]: norm_2 of the quaternion returned by exp = 1 (discharged by ALG on the closed-form cell)"


def _with_unit_hint(X, quat, out):
    """the quaternion logarithm renormalises its argument; on the image of exp the norm is exactly 1 in real arithmetic
    (obligation C06.hint.unit-quaternion), which removes the interval dependency of q0 / |q| next to acos's singular point"""
    return {"out": out(X), "hints": [(ca.norm_2(quat(X)), 1.0, HINT_UNIT)]}


def extra_consumers():
    """logs (composed with exp so that the input is a free rotation vector) and series-free conversions"""
    from cyecca.lie.group_so3 import so3, SO3Quat, SO3Mrp, SO3Dcm, SO3EulerB321
    from cyecca.lie.group_se3 import se3, SE3Quat, SE3Mrp
    from cyecca.lie.group_se23 import se23, SE23Quat, SE23Mrp
    from cyecca.lie.group_se2 import se2, SE2
    E = {
        "SO3Mrp.log": (3, (0, 3), lambda r: SO3Mrp.elem(r).log().param, 0.26),  # |r| = tan(theta/4) <= 0.26 for theta <= 1
        "SO3Mrp.log(exp)": (3, (0, 3), lambda w: so3.elem(w).exp(SO3Mrp).log().param, 1.0),
        "SO3Quat.log(exp)": (3, (0, 3), lambda w: _with_unit_hint(so3.elem(w).exp(SO3Quat), lambda X: X.param, lambda X: X.log().param), 1.0),
        "SO3Dcm.log(exp)": (3, (0, 3), lambda w: so3.elem(w).exp(SO3Dcm).log().param, 1.0),
        "SE3Mrp.log(exp)": (6, (3, 6), lambda w: se3.elem(w).exp(SE3Mrp).log().param, 1.0),
        "SE3Quat.log(exp)": (6, (3, 6), lambda w: _with_unit_hint(se3.elem(w).exp(SE3Quat), lambda X: X.param[3:7], lambda X: X.log().param), 1.0),
        "SE23Quat.log(exp)": (9, (6, 9), lambda w: _with_unit_hint(se23.elem(w).exp(SE23Quat), lambda X: X.param[6:10], lambda X: X.log().param), 1.0),
        "SE23Mrp.log(exp)": (9, (6, 9), lambda w: se23.elem(w).exp(SE23Mrp).log().param, 1.0),
        "SE23Quat.exp": (9, (6, 9), lambda w: se23.elem(w).exp(SE23Quat).to_Matrix(), 1.0),
        "SE23Mrp.exp": (9, (6, 9), lambda w: se23.elem(w).exp(SE23Mrp).to_Matrix(), 1.0),
        "SE2.log(exp)": (3, (2, 3), lambda w: se2.elem(w).exp(SE2).log().param, 1.0),
        # the N block of the mixed-invariant exponential (strapdown INS), with the coupling B of rdd2's propagation
        "SE23Quat.calculate_N": (9, (6, 9), lambda w: SE23Quat.calculate_N(se23.elem(w), ca.SX([[0, 1], [0, 0]])), 1.0),
        "conv Quat.from_Mrp": (3, (0, 3), lambda r: SO3Quat.from_Mrp(SO3Mrp.elem(r)).param, 0.26),
        "conv Dcm.from_Mrp": (3, (0, 3), lambda r: SO3Dcm.from_Mrp(SO3Mrp.elem(r)).param, 0.26),
        "conv Mrp.from_Quat(exp)": (3, (0, 3), lambda w: SO3Mrp.from_Quat(so3.elem(w).exp(SO3Quat)).param, 1.0),
        "conv Dcm.from_Quat(exp)": (3, (0, 3), lambda w: SO3Dcm.from_Quat(so3.elem(w).exp(SO3Quat)).param, 1.0),
        "conv Quat.from_Dcm(exp)": (3, (0, 3), lambda w: SO3Quat.from_Dcm(so3.elem(w).exp(SO3Dcm)).param, 1.0),
        "conv Mrp.from_Dcm(exp)": (3, (0, 3), lambda w: SO3Mrp.from_Dcm(so3.elem(w).exp(SO3Dcm)).param, 1.0),
        "conv Euler.from_Quat(exp)": (3, (0, 3), lambda w: SO3EulerB321.from_Quat(so3.elem(w).exp(SO3Quat)).param, 1.0),
        "conv Euler.from_Dcm(exp)": (3, (0, 3), lambda w: SO3EulerB321.from_Dcm(so3.elem(w).exp(SO3Dcm)).param, 1.0),
        "conv Euler.from_Mrp(exp)": (3, (0, 3), lambda w: SO3EulerB321.from_Mrp(so3.elem(w).exp(SO3Mrp)).param, 1.0),
    }
    return E


class FPJobR(FPJob):
    """same analysis on the ball of radius r_max (stated in the obligation)"""

    def __init__(self, name, n_in, rot, build, r_max):
        super().__init__(name, n_in, rot, build)
        self.r_max = r_max


class JacFiniteJob:
    """third clause of C06: the CasADi AD Jacobian (w.r.t. every input) of a consumer, evaluated in doubles, is finite at and
    around zero rotation.  The Jacobian graph of the REAL function (series not stubbed: both branches of every if_else and
    their derivatives are in the graph) is analysed with the same floating-point model on boxes covering the ball of 1 rad:
    a finite value enclosure and a finite error bound imply a finite double result (no inf, no NaN: every division has a
    divisor enclosure away from 0, every sqrt / acos / asin argument stays in its domain, guarded values are masked by
    if_else_zero).  skip_core: the box |w_rot|_inf <= 1e-7 is left out for the acos-based logarithms, whose Jacobian at
    the identity is the recorded known finding (NaN at zero and wherever cos(theta/2) or the trace rounds to its value at the
    identity, theta < ~2e-8; the analysis needs 1e-6 for the quaternion logarithms, 1e-7 for the DCM logarithm)."""

    EDGES = [0.0, R_CORE, 1e-6, 1e-5, 1e-4, 4e-4, 8e-4, 1.2e-3, 2e-3, 4e-3, 8e-3, 0.016, 0.025, 0.0316, 0.04, 0.055, 0.0633, 0.08, 0.12, 0.2, 0.35, 0.6, 1.0]

    def __init__(self, name, n_in, rot, build, skip_core=False, r_max=1.0):
        self.id = f"C06.jac-finite[{name}]"
        self.name, self.n_in, self.rot, self.build, self.skip_core, self.r_max = name, n_in, rot, build, skip_core, r_max
        self.functions = consumer_functions(name)
        self.lemmas = ["A-FP standard floating-point model", "L-NORMALIZE"]
        self.assumptions = FPJob("x", 1, (0, 1), None).assumptions + ["CasADi forward/reverse AD produces the graph that is evaluated (trusted; cyecca relies on it)"]

    def run(self, seed=0):
        t0 = time.time()
        try:
            w = ca.SX.sym("w", self.n_in)
            calls = []
            with record_series(calls):
                built = self.build(w)
            hint_list = []
            if isinstance(built, dict):
                hint_list = built.get("hints", [])
                built = built["out"]
            out = ca.vec(ca.SX(built))
            Jm = ca.jacobian(out, w)
            outs = {"J": ca.vec(ca.SX(Jm)), "out": out}
            for k, (hx, alt, why) in enumerate(hint_list):
                outs[f"hint{k}"] = ca.SX(hx)
            if calls:
                outs["cargs"] = ca.vertcat(*[a_ for _, _, a_, _ in calls])
                outs["cres"] = ca.vertcat(*[r_ for _, _, _, r_ in calls])
            g, on, n_instr = ir.extract({"w": w}, outs)
            roots = [row[0] for row in on["J"] if row[0] is not None] + [row[0] for row in on["out"] if row[0] is not None]
            guards = fperr.use_guards(g, roots)
            anc = g.ancestors(roots)
            hints = {}
            for k, (hx, alt, why) in enumerate(hint_list):
                hn = on[f"hint{k}"][0][0]
                if hn not in anc:
                    raise TaylorError(f"hint {k} ({why}) does not name a node of the analysed graph")
                hints[hn] = IV(float(alt))
            # real value of a series call = the analytic function of its key at the (real) argument, up to the truncation
            # lemma on the Taylor side: enclosure from the Taylor form (no interval dependency of the closed form)
            for j, (table, key, _, _) in enumerate(calls):
                an, rn = on["cargs"][j][0], on["cres"][j][0]
                if rn is None or rn not in anc or an is None:
                    continue

                def series_value(ev, table=table, key=key, an=an):
                    A, ea = ev(an)
                    if not (A.finite() and math.isfinite(ea)):
                        return None
                    lo_, hi_ = (max(A.lo, 0.0), max(A.hi, 0.0)) if table == "SQUARED_SERIES" else (A.mig(), A.mag())
                    try:
                        entry_table(table, key)
                        if _thr[(table, key)] > EPS * (1 + 1e-9):
                            return None  # the truncation lemma covers the polynomial on |arg| < 1e-3 only
                        lip = tf_lipschitz(table, key, lo_, hi_ * (1 + 1e-9))
                        t = _trunc(table, key)
                    except TaylorError:
                        return None
                    if lip is None:
                        return None
                    return IV(lip[2].lo - t, lip[2].hi + t)

                hints[rn] = series_value
            a, b = self.rot
            n_boxes = 0
            rm = self.r_max
            for (r0, r1), rbox0 in regions(b - a, rm, 1, [e_ for e_ in self.EDGES if e_ < rm] + [rm]):
                if self.skip_core and r1 <= self.skip_core * (1 + 1e-9):
                    continue
                stack = [(rbox0, 0)]
                while stack:
                    rbox, depth = stack.pop()
                    n_boxes += 1
                    env_val = {("w", i, 0): IV(-1.0, 1.0) for i in range(self.n_in)}
                    for i in range(a, b):
                        env_val[("w", i, 0)] = IV(*rbox[i - a])
                    memo = fperr.analyse(g, roots, env_val, {}, None, hints, guards)
                    bad = [n for n in roots if not (memo[n][0].finite() and math.isfinite(memo[n][1]))]
                    if not bad:
                        continue
                    if depth >= 8 or n_boxes > 20000:
                        return [Result(self.id, "AD Jacobian finite around zero", UNDECIDED, "FPERR", "", time.time() - t0,
                                       f"cannot bound {len(bad)} Jacobian/value entries on box {[(round(x, 9), round(y, 9)) for x, y in rbox]} (divisor enclosure contains 0 or an argument may leave its domain)")]
                    k = max(range(len(rbox)), key=lambda j: rbox[j][1] - rbox[j][0])
                    mid = 0.5 * (rbox[k][0] + rbox[k][1])
                    for half in ((rbox[k][0], mid), (mid, rbox[k][1])):
                        nb = list(rbox)
                        nb[k] = half
                        n2 = sum(0.0 if lo_ <= 0 <= hi_ else min(abs(lo_), abs(hi_)) ** 2 for lo_, hi_ in nb)
                        if n2 <= rm * rm * (1 + 1e-9):
                            stack.append((nb, depth + 1))
            where = f"{self.skip_core:g} <= |w_rot|_inf, |w_rot|_2 <= {rm:g} (the AD Jacobian at and next to the identity is the recorded known finding)" if self.skip_core else f"|w_rot|_2 <= {rm:g} including zero rotation"
            return [Result(self.id, f"{self.name}: value and CasADi AD Jacobian are finite in double precision for every rotation vector with {where}, other inputs in [-1, 1]",
                           PROVED, "FPERR", "", time.time() - t0, f"{n_boxes} boxes, {n_instr} instructions (value and Jacobian graph, both branches of every series in the graph)", None, len(roots))]
        except TaylorError as e:
            return [Result(self.id, "AD Jacobian finite around zero", UNDECIDED, "FPERR", "", time.time() - t0, str(e))]
        except Exception as e:
            return [Result(self.id, "AD Jacobian finite around zero", ERROR, "FPERR", "", time.time() - t0, f"{type(e).__name__}: {e}\n{traceback.format_exc(limit=5)}")]

    def replay(self, w):
        r = self.run()[0]
        return r.status == REFUTED, r.detail


NAN_AT_IDENTITY = {}  # the quaternion and DCM logarithms were repaired in round 2 (whole ball incl. zero)


def jac_jobs():
    C = lie_consumers()
    J = [JacFiniteJob(n, *C[n]) for n in FP_CONSUMERS]
    for n, (n_in, rot, build, r_max) in extra_consumers().items():
        if r_max == 1.0:
            J.append(JacFiniteJob(n, n_in, rot, build, skip_core=NAN_AT_IDENTITY.get(n, False), r_max=0.8 if "Euler" in n else 1.0))
    return J


def jobs():
    C = lie_consumers()
    J = [FPJob(n, *C[n]) for n in FP_CONSUMERS]
    for n, (n_in, rot, build, r_max) in extra_consumers().items():
        J.append(FPJobR(n, n_in, rot, build, r_max))
    return J + jac_jobs()
