"""C06, floating-point clause, RIGOROUS part: |fl(F)(w) - F_exact(w)| <= 1e-9 for every consumer F below, every w with
rotation components in [-1, 1] (hence every rotation magnitude up to 1 rad, and beyond) and other inputs in [-1, 1].

Method (standard floating-point model, assumption A-FP):
 1. per series entry: forward error analysis (cyverif.fperr) of BOTH branches of the real Function on a geometric
    subdivision of the argument range [0, 3.1]: delta_k(arg) >= |fl(c_k)(arg~) - c_k(arg)| including a relative input
    perturbation of 8U; plus the rigorous truncation bound on the Taylor branch (C06 layer 1);
 2. per consumer: the series tables are replaced by opaque coefficients c_j; on each max-norm shell rho_i < |w_rot|_inf <=
    rho_(i+1) the coefficient enclosures and errors for the shell's argument range are fed into the same error analysis of
    the consumer's own graph G(c, w) over the box; the bound is the maximum over shells and outputs.
 The switch is covered from both sides because each coefficient's error is the maximum of both branches wherever the
 floating-point argument could select either of them."""
from __future__ import annotations

import math
import time
import traceback
from fractions import Fraction

import casadi as ca

from cyverif import fperr, ir
from cyverif.harness import ERROR, PROVED, REFUTED, UNDECIDED, Result
from cyverif.interval import IV, eval_iv
from cyverif.taylor import TaylorError
from cyecca import symbolic
from cyecca.symbolic import SERIES, SQUARED_SERIES

from .taylor_cell import entry_bounds, lie_consumers, stub_series

U = fperr.U
EPS = 1e-3
A_MAX = 3.2
ETA_SUB = 2.5e-3
REL_IN = 64 * U  # relative perturbation of a series argument assumed by the per-entry tables (checked per shell)
TARGET = 1e-9

_tables = {}
_thr = {}


def entry_table(table, key):
    """list of (lo, hi, err, mag) over the argument range; err covers both branches where either may be selected"""
    ck = (table, key)
    if ck in _tables:
        return _tables[ck]
    from .c06 import entry_graph, split_branches
    F = (SQUARED_SERIES if table == "SQUARED_SERIES" else SERIES)[key]
    g, n = entry_graph(F)
    br = split_branches(g, n)
    if br is None:
        raise TaylorError(f"{key}: unexpected entry structure")
    c, T, C = br
    # the switch threshold is read from the real graph (a changed threshold changes the analysed ranges)
    thr = float(g.payload(g.args(c)[1])) if g.op(g.args(c)[1]) == "CONST" else EPS
    _thr[ck] = thr
    rows = []

    plain = table == "SERIES"

    def run(node, lo, hi):
        e_max, m_max = 0.0, 0.0
        first = True
        for (a_, b_) in ([(lo, hi), (-hi, -lo)] if plain else [(lo, hi)]):  # plain entries take signed arguments
            env = {("x", 0, 0): IV(a_, b_)}
            er = {("x", 0, 0): REL_IN * max(abs(a_), abs(b_))}
            m = fperr.analyse(g, [node], env, er)
            v, e = m[node]
            e_max = max(e_max, e)
            m_max = v if first else m_max.hull(v)
            first = False
        return e_max, m_max

    # Taylor branch: [0, thr (1 + 1e-9)]
    k = 24
    edges = [0.0] + [thr * (1 + 1e-9) * (j / k) for j in range(1, k + 1)]
    for a, b in zip(edges, edges[1:]):
        e, mg = run(T, a, b)
        rows.append((a, b, e, mg, "T"))
    # closed-form branch: [thr (1 - 1e-9), A_MAX]
    a = thr * (1 - 1e-9)
    while a < A_MAX:
        b = min(a * (1 + ETA_SUB), A_MAX)
        e, mg = run(C, a, b)
        rows.append((a, b, e, mg, "C"))
        a = b
    _tables[ck] = rows
    return rows


def coef_error(table, key, lo, hi):
    """(max error, max magnitude) of the computed coefficient for arguments in [lo, hi] (plain table: |arg|)"""
    rows = entry_table(table, key)
    e = 0.0
    mg = None
    for a, b, er, m, tag in rows:
        if b < lo or a > hi:
            continue
        e = max(e, er)
        mg = m if mg is None else mg.hull(m)
    if hi > A_MAX or mg is None:
        return math.inf, IV(-math.inf, math.inf)
    return e, mg


def coef_error_abs(table, key, hi, e_in):
    """first shell (arguments in [0, hi], hi below the switch): Taylor branch with an ABSOLUTE input error e_in"""
    from .c06 import entry_graph, split_branches
    F = (SQUARED_SERIES if table == "SQUARED_SERIES" else SERIES)[key]
    g, n = entry_graph(F)
    c, T, C = split_branches(g, n)
    entry_table(table, key)
    hi = min(hi, _thr[(table, key)] * (1 + 1e-9))
    e_max, m_max = 0.0, None
    k = 8
    for j in range(k):
        a_, b_ = hi * j / k, hi * (j + 1) / k
        for (x0, x1) in ([(a_, b_), (-b_, -a_)] if table == "SERIES" else [(a_, b_)]):
            m = fperr.analyse(g, [T], {("x", 0, 0): IV(x0, x1)}, {("x", 0, 0): e_in})
            v, e = m[T]
            e_max = max(e_max, e)
            m_max = v if m_max is None else m_max.hull(v)
    return e_max, m_max


def coef_error_range_abs(table, key, lo, hi, e_in):
    """both branches as selected on [lo, hi] with an ABSOLUTE input error e_in (used when the argument's error is not
    small relative to the argument: first shell, arguments obtained through acos, ...)"""
    from .c06 import entry_graph, split_branches
    F = (SQUARED_SERIES if table == "SQUARED_SERIES" else SERIES)[key]
    g, n = entry_graph(F)
    c, T, C = split_branches(g, n)
    entry_table(table, key)
    thr = _thr[(table, key)]
    if hi > A_MAX:
        return math.inf, IV(-math.inf, math.inf)
    e_max, m_max = 0.0, None
    pieces = []
    if lo < thr * (1 + 1e-9):
        t_hi = min(hi, thr * (1 + 1e-9))
        k = 8
        for j in range(k):
            pieces.append((T, lo + (t_hi - lo) * j / k, lo + (t_hi - lo) * (j + 1) / k))
    if hi > thr * (1 - 1e-9):
        x = max(lo, thr * (1 - 1e-9) - 4 * e_in)
        x = max(x, thr * 0.5)
        while x < hi:
            y = min(x * (1 + 4 * ETA_SUB), hi)
            pieces.append((C, x, y))
            x = y
    for node, x0, x1 in pieces:
        for (p0, p1) in ([(x0, x1), (-x1, -x0)] if table == "SERIES" else [(x0, x1)]):
            m = fperr.analyse(g, [node], {("x", 0, 0): IV(p0, p1)}, {("x", 0, 0): e_in})
            v, e = m[node]
            e_max = max(e_max, e)
            m_max = v if m_max is None else m_max.hull(v)
    return e_max, (m_max if m_max is not None else IV(-math.inf, math.inf))


def shells():
    edges = [0.0, 0.004, 0.008, 0.012, 0.016, 0.02, 0.024, 0.028, 0.0316, 0.034, 0.038, 0.044, 0.052, 0.0633, 0.075]
    r = 0.075
    while r < 1.0:
        r = min(r * 1.22, 1.0)
        edges.append(r)
    return list(zip(edges, edges[1:]))


class FPJob:
    def __init__(self, name, n_in, rot, build, other=1.0, box_fn=None):
        self.id = f"C06.fp[{name}]"
        self.name, self.n_in, self.rot, self.build = name, n_in, rot, build
        self.other, self.box_fn = other, box_fn
        self.functions = [symbolic.taylor_series_near_zero]
        self.lemmas = ["A-FP standard floating-point model", "L-TAYLOR"]
        self.assumptions = ["A-FP: IEEE doubles, round to nearest, U = 2^-53; libm sin/cos/tan/atan/pow within 1 ulp; sqrt correctly rounded"]

    def run(self, seed=0):
        t0 = time.time()
        try:
            w = ca.SX.sym("w", self.n_in)
            calls = []
            with stub_series(calls):
                out = ca.vec(ca.SX(self.build(w)))
            if calls:
                c = ca.vertcat(*[s for _, _, _, s in calls])
                g, on, n_instr = ir.extract({"w": w, "c": c}, {"out": out, "args": ca.vertcat(*[a for _, _, a, _ in calls])})
                arg_nodes = [row[0] for row in on["args"]]
            else:
                g, on, n_instr = ir.extract({"w": w}, {"out": out})
                arg_nodes = []
            out_nodes = [row[0] for row in on["out"]]
            a, b = self.rot
            worst = (0.0, None)
            undec = None
            r_max = getattr(self, "r_max", 1.0)
            for (r0, r1) in shells():
                if r0 >= r_max:
                    break
                r1 = min(r1, r_max)
                box = {("w", i, 0): (IV(-r1, r1) if a <= i < b else IV(-self.other, self.other)) for i in range(self.n_in)}
                if self.box_fn:
                    box.update(self.box_fn(r0, r1))
                env_val = dict(box)
                env_err = {}
                for j in range(len(calls)):
                    env_val[("c", j, 0)] = IV(0.0)
                # coefficient call sites in creation order: the argument of a later one may depend on earlier coefficients
                for j, (table, key, arg, s) in enumerate(calls):
                    n = arg_nodes[j]
                    memo = fperr.analyse(g, [n], env_val, env_err)
                    av, earg = memo[n] if n is not None else (IV(0.0), 0.0)
                    if not math.isfinite(earg) or not av.finite():
                        raise TaylorError(f"argument of {key} cannot be bounded on shell ({r0:.3g}, {r1:.3g})")
                    hi = av.mag() + earg
                    lo = 0.0
                    if r0 > 0:
                        lo = math.inf
                        for k in range(a, b):
                            for sgn in (1, -1):
                                slab = dict(env_val)
                                slab[("w", k, 0)] = IV(r0, r1) if sgn > 0 else IV(-r1, -r0)
                                if self.box_fn:
                                    pass
                                mm = fperr.analyse(g, [n], slab, env_err)
                                lo = min(lo, max(mm[n][0].mig() - mm[n][1], 0.0))
                    entry_table(table, key)
                    thr = _thr[(table, key)]
                    if lo > 0 and earg <= REL_IN * lo:
                        e, mg = coef_error(table, key, lo * (1 - 1e-9), hi * (1 + 1e-9))
                    else:
                        e, mg = coef_error_range_abs(table, key, lo, hi * (1 + 1e-9), earg)
                    if lo <= thr * (1 + 1e-6):
                        if thr > EPS * (1 + 1e-9):
                            raise TaylorError(f"{key}: switch threshold {thr} above the cell of the truncation lemma")
                        e += entry_bounds(table, key, EPS)[0]  # truncation of the Taylor branch (lemma proved on |arg| < 1e-3)
                    env_val[("c", j, 0)] = IV(mg.lo - e, mg.hi + e) if math.isfinite(e) else mg
                    env_err[("c", j, 0)] = e
                memo = fperr.analyse(g, out_nodes, env_val, env_err)
                for i, n in enumerate(out_nodes):
                    if n is None:
                        continue
                    e = memo[n][1]
                    if not math.isfinite(e):
                        undec = (r0, r1, i)
                        break
                    if e > worst[0]:
                        worst = (e, (r0, r1, i))
                if undec:
                    break
            if undec:
                return [Result(self.id, "floating-point bound", UNDECIDED, "FPERR", "", time.time() - t0,
                               f"analysis cannot bound output {undec[2]} on shell {undec[:2]} (undetermined branch / divisor enclosure contains 0)")]
            ok = worst[0] <= TARGET
            rm = getattr(self, "r_max", 1.0)
            if not ok:
                # an over-approximate bound above the target decides nothing by itself (the bounded sweeps look for real violations)
                return [Result(self.id, "floating-point bound", UNDECIDED, "FPERR", "", time.time() - t0,
                               f"rigorous bound {worst[0]:.3e} exceeds 1e-9 on shell {worst[1][:2] if worst[1] else None}: not a refutation (over-approximation)")]
            return [Result(self.id, f"{self.name}: |double-precision value - exact value| <= 1e-9 for all rotation components in [-{rm}, {rm}] (covers rotation magnitudes 0..{rm} rad and both sides of every switch), other inputs in [-1, 1]",
                           PROVED if ok else REFUTED, "FPERR", "", time.time() - t0,
                           f"rigorous bound {worst[0]:.3e} (worst shell rho in {worst[1][:2] if worst[1] else None}); {len(calls)} coefficient call sites, {len(shells())} shells, {n_instr} instructions",
                           None if ok else {"inputs": {"bound": worst[0], "shell": worst[1]}}, len(out_nodes))]
        except TaylorError as e:
            return [Result(self.id, "floating-point bound", UNDECIDED, "FPERR", "", time.time() - t0, str(e))]
        except Exception as e:
            return [Result(self.id, "floating-point bound", ERROR, "FPERR", "", time.time() - t0, f"{type(e).__name__}: {e}\n{traceback.format_exc(limit=5)}")]

    def replay(self, w):
        r = self.run()[0]
        return r.status == REFUTED, r.detail


FP_CONSUMERS = ["so3.left_jacobian", "so3.left_jacobian_inv", "so3.right_jacobian", "so3.right_jacobian_inv", "SO3Quat.exp", "SO3Mrp.exp", "SO3Dcm.exp",
                "se3.left_Q", "se3.left_jacobian", "se3.right_jacobian", "se3.left_jacobian_inv", "se3.right_jacobian_inv", "SE3Quat.exp", "SE3Mrp.exp",
                "se23.left_jacobian", "se23.right_jacobian", "se23.left_jacobian_inv", "SE2.exp", "SE3Quat.Ad(exp)"]


def extra_consumers():
    """logs (composed with exp so that the input is a free rotation vector) and series-free conversions"""
    from cyecca.lie.group_so3 import so3, SO3Quat, SO3Mrp, SO3Dcm, SO3EulerB321
    from cyecca.lie.group_se3 import se3, SE3Quat, SE3Mrp
    from cyecca.lie.group_se2 import se2, SE2
    E = {
        "SO3Mrp.log": (3, (0, 3), lambda r: SO3Mrp.elem(r).log().param, 0.26),  # |r| = tan(theta/4) <= 0.26 for theta <= 1
        "SO3Mrp.log(exp)": (3, (0, 3), lambda w: so3.elem(w).exp(SO3Mrp).log().param, 1.0),
        "SE3Mrp.log(exp)": (6, (3, 6), lambda w: se3.elem(w).exp(SE3Mrp).log().param, 0.55),
        "SE2.log(exp)": (3, (2, 3), lambda w: se2.elem(w).exp(SE2).log().param, 1.0),
        "conv Quat.from_Mrp": (3, (0, 3), lambda r: SO3Quat.from_Mrp(SO3Mrp.elem(r)).param, 0.26),
        "conv Dcm.from_Mrp": (3, (0, 3), lambda r: SO3Dcm.from_Mrp(SO3Mrp.elem(r)).param, 0.26),
        "conv Mrp.from_Quat(exp)": (3, (0, 3), lambda w: SO3Mrp.from_Quat(so3.elem(w).exp(SO3Quat)).param, 1.0),
        "conv Dcm.from_Quat(exp)": (3, (0, 3), lambda w: SO3Dcm.from_Quat(so3.elem(w).exp(SO3Quat)).param, 1.0),
        "conv Quat.from_Dcm(exp)": (3, (0, 3), lambda w: SO3Quat.from_Dcm(so3.elem(w).exp(SO3Dcm)).param, 0.55),
        "conv Mrp.from_Dcm(exp)": (3, (0, 3), lambda w: SO3Mrp.from_Dcm(so3.elem(w).exp(SO3Dcm)).param, 0.55),
        "conv Euler.from_Quat(exp)": (3, (0, 3), lambda w: SO3EulerB321.from_Quat(so3.elem(w).exp(SO3Quat)).param, 0.55),
    }
    return E


class FPJobR(FPJob):
    """same analysis with the shells cut at a maximal rotation-component radius r_max (interval dependency makes some
    branch tests undecidable on the corners of larger boxes; r_max = 0.55 still contains every rotation up to 0.55 rad per
    axis, i.e. the ball of 0.55 rad; stated in the obligation)"""

    def __init__(self, name, n_in, rot, build, r_max):
        super().__init__(name, n_in, rot, build)
        self.r_max = r_max


def jobs():
    C = lie_consumers()
    J = [FPJob(n, *C[n]) for n in FP_CONSUMERS]
    for n, (n_in, rot, build, r_max) in extra_consumers().items():
        J.append(FPJobR(n, n_in, rot, build, r_max))
    return J
