"""Spec functions (right-hand sides of `ensures`), written with plain CasADi operators only and
independently of cyecca.  They are mathematical definitions, not look-alikes of the code:
the hat maps, the rotation matrix of a unit quaternion / MRP / Euler triple, block matrices."""
import casadi as ca


def I(n):
    return ca.SX.eye(n)


def Z(n, m):
    return ca.SX.zeros(n, m)


def hat3(w):
    w = ca.SX(w)
    M = ca.SX.zeros(3, 3)
    M[0, 1] = -w[2]
    M[0, 2] = w[1]
    M[1, 0] = w[2]
    M[1, 2] = -w[0]
    M[2, 0] = -w[1]
    M[2, 1] = w[0]
    return M


def vee3(M):
    return ca.vertcat(M[2, 1], M[0, 2], M[1, 0])


def hat2(th):
    M = ca.SX.zeros(2, 2)
    M[0, 1] = -th
    M[1, 0] = th
    return M


def rot2(th):
    M = ca.SX.zeros(2, 2)
    M[0, 0] = ca.cos(th)
    M[0, 1] = -ca.sin(th)
    M[1, 0] = ca.sin(th)
    M[1, 1] = ca.cos(th)
    return M


def R_quat(q):
    """rotation matrix of a unit quaternion (scalar first): (q0^2 - v.v) I + 2 v v^T + 2 q0 [v]x"""
    q = ca.SX(q)
    q0 = q[0]
    v = q[1:4]
    return (q0 * q0 - ca.dot(v, v)) * I(3) + 2 * (v @ v.T) + 2 * q0 * hat3(v)


def quat_of_mrp(r):
    """unit quaternion of an MRP r = v tan(theta/4):  q0 = (1-n)/(1+n), qv = 2 r/(1+n), n = r.r"""
    r = ca.SX(r)
    n = ca.dot(r, r)
    return ca.vertcat((1 - n) / (1 + n), 2 * r / (1 + n))


def R_mrp(r):
    return R_quat(quat_of_mrp(r))


def Rx(a):
    M = ca.SX.eye(3)
    M[1, 1] = ca.cos(a)
    M[1, 2] = -ca.sin(a)
    M[2, 1] = ca.sin(a)
    M[2, 2] = ca.cos(a)
    return M


def Ry(a):
    M = ca.SX.eye(3)
    M[0, 0] = ca.cos(a)
    M[0, 2] = ca.sin(a)
    M[2, 0] = -ca.sin(a)
    M[2, 2] = ca.cos(a)
    return M


def Rz(a):
    M = ca.SX.eye(3)
    M[0, 0] = ca.cos(a)
    M[0, 1] = -ca.sin(a)
    M[1, 0] = ca.sin(a)
    M[1, 1] = ca.cos(a)
    return M


def R_euler_b321(e):
    """body-fixed 3-2-1: psi (z), theta (y), phi (x):  R = Rz(psi) Ry(theta) Rx(phi)"""
    e = ca.SX(e)
    return Rz(e[0]) @ Ry(e[1]) @ Rx(e[2])


def R_dcm(p):
    """9-vector, column-major -> 3x3"""
    p = ca.SX(p)
    M = ca.SX.zeros(3, 3)
    for j in range(3):
        for i in range(3):
            M[i, j] = p[i + 3 * j]
    return M


def se3_hat(x):
    """x = (v, w): [[w^, v],[0 0]]"""
    x = ca.SX(x)
    return ca.vertcat(ca.horzcat(hat3(x[3:6]), x[0:3]), Z(1, 4))


def se3_vee(M):
    return ca.vertcat(M[0, 3], M[1, 3], M[2, 3], M[2, 1], M[0, 2], M[1, 0])


def se23_hat(x):
    """x = (v_b, a_b, w): [[w^, a, v],[0]] (the library's column convention: col 3 = a_b, col 4 = v_b)"""
    x = ca.SX(x)
    return ca.vertcat(ca.horzcat(hat3(x[6:9]), x[3:6], x[0:3]), Z(2, 5))


def se23_vee(M):
    return ca.vertcat(M[0, 4], M[1, 4], M[2, 4], M[0, 3], M[1, 3], M[2, 3], M[2, 1], M[0, 2], M[1, 0])


def se2_hat(x):
    x = ca.SX(x)
    return ca.vertcat(ca.horzcat(hat2(x[2]), x[0:2]), Z(1, 3))


def se2_vee(M):
    return ca.vertcat(M[0, 2], M[1, 2], M[1, 0])


def rn_hat(x, n):
    x = ca.SX(x)
    M = ca.SX.zeros(n + 1, n + 1)
    for i in range(n):
        M[i, n] = x[i]
    return M


def rn_vee(M, n):
    return ca.vertcat(*[M[i, n] for i in range(n)])


def blkdiag(*Ms):
    return ca.diagcat(*Ms)
