"""C04 — Ad / ad / bracket agree with matrix conjugation and commutators."""
from __future__ import annotations

import casadi as ca

from cyverif.harness import Ob, cells, PROVED, REFUTED, Result
from cyverif.harness import Trace as _Trace
from cyverif.sorts import Angle, Free, RotVec, Composite, Const
from . import spec
from .groups import make_groups, product_info

POL = cells(series="closed", gimbal="outside")


def Trace(*a, **k):  # noqa: N802
    k.setdefault("decide", POL)
    return _Trace(*a, **k)


def alg_sort(info, name, rot_k=2):
    """algebra element sort: free translations, rotation part as RotVec (needed only when exp is traced)"""
    return Free(name, info.n_alg)


def fns_of(info):
    out = []
    for cls in (type(info.group), type(info.group.algebra)):
        for n in ("adjoint", "bracket", "to_Matrix", "inverse", "product"):
            if hasattr(cls, n):
                out.append(getattr(cls, n))
    return out


def group_traces(info, tier):
    G = info.group
    g = G.algebra
    n = info.name
    na = info.n_alg
    fns = fns_of(info)
    T = []

    # ---- algebra: to_Matrix = hat spec; bracket = commutator; ad = bracket; antisymmetry; Jacobi
    def b_alg(x, y, z):
        ex, ey, ez = g.elem(x), g.elem(y), g.elem(z)
        hx, hy = info.alg_hat(x), info.alg_hat(y)
        out = {
            "hat_x": ex.to_Matrix(), "hat_x_spec": hx,
            "ad": ex.ad(), "ad_y": ex.ad() @ y,
            "brk": (ex * ey).param,
            "comm_vee": info.alg_vee(hx @ hy - hy @ hx),
            "hat_brk": info.alg_hat((ex * ey).param), "comm": hx @ hy - hy @ hx,
            "anti": (ex * ey).param + (ey * ex).param,
            "jacobi": (ex * (ey * ez)).param + (ey * (ez * ex)).param + (ez * (ex * ey)).param,
        }
        return out

    T.append(Trace(f"C04.{n}.algebra", [Free("x", na), Free("y", na), Free("z", na)], b_alg, [
        Ob("algebra to_Matrix = hat spec", "hat_x", "hat_x_spec"),
        Ob("ad shape n x n", "ad", (na, na), kind="shape"),
        Ob("ad_x y = [x,y]", "ad_y", "brk"),
        Ob("[x,y] = vee(commutator)", "brk", "comm_vee"),
        Ob("hat([x,y]) = commutator", "hat_brk", "comm"),
        Ob("antisymmetry", "anti", None),
        Ob("Jacobi identity", "jacobi", None),
    ], functions=fns))

    # ---- group: Ad_X y = vee(M(X) hat(y) M(X^-1)); homomorphism
    def b_Ad(X, Y, y):
        eX, eY = G.elem(X), G.elem(Y)
        Ad = eX.Ad()
        MX = eX.to_Matrix()
        MXi = eX.inverse().to_Matrix()
        return {
            "Ad": Ad,
            "hat_Ad_y": info.alg_hat(Ad @ y),
            "conj": MX @ info.alg_hat(y) @ MXi,
            "Ad_XY": (eX * eY).Ad(), "AdXAdY": eX.Ad() @ eY.Ad(),
            "AdinvAd": eX.inverse().Ad() @ eX.Ad(), "I": spec.I(na),
        }

    T.append(Trace(f"C04.{n}.Ad", [info.sort("X"), info.sort("Y"), Free("y", na)], b_Ad, [
        Ob("Ad shape n x n", "Ad", (na, na), kind="shape"),
        Ob("hat(Ad_X y) = M(X) hat(y) M(X^-1)", "hat_Ad_y", "conj"),
        Ob("Ad_{XY} = Ad_X Ad_Y", "Ad_XY", "AdXAdY"),
        Ob("Ad_{X^-1} Ad_X = I", "AdinvAd", "I"),
    ], functions=fns))
    return T


def expad_traces(info, tier):
    """Ad_exp(x) = expm(ad_x):  Phi(y) := Ad(exp(y)) satisfies  sum_i y_i dPhi/dy_i = ad_y Phi  (derivative along
    the ray t -> t y at t = 1; hence d/dt Phi(t y) = ad_y Phi(t y)) and Phi(0) = I  => Phi = expm(ad_y) (lemma L-ODE)."""
    G = info.group
    g = G.algebra
    n = info.name
    na = info.n_alg
    k = 4 if info.so3 == "Mrp" else 2
    if info.kind == "so3":
        parts = [RotVec("y_w", k)]
    elif info.kind == "se3":
        parts = [Free("y_v", 3), RotVec("y_w", k)]
    elif info.kind == "se23":
        parts = [Free("y_v", 3), Free("y_a", 3), RotVec("y_w", k)]
    elif info.kind == "se2":
        parts = [Free("y_v", 2), Angle("y_th")]
    elif info.kind == "so2":
        parts = [Angle("y_th")]
    else:
        parts = [Free("y_", na)]
    ysort = Composite("y", parts)

    def b(y):
        ey = g.elem(y)
        Phi = ey.exp(G).Ad()
        dPhi = ca.reshape(ca.jtimes(ca.reshape(Phi, na * na, 1), y, y), na, na)
        return {"DPhi": dPhi, "adPhi": ey.ad() @ Phi}

    def b0(y):
        return {"Phi0": g.elem(y).exp(G).Ad(), "I": spec.I(na)}

    fns = fns_of(info) + [type(G).exp]
    dec = cells(series="closed", gimbal="outside")
    if info.so3 == "Mrp":
        # the shadow switch `r.r > 1` of SO3Mrp.exp is explored on both branches
        pass
    return [
        Trace(f"C04.{n}.expad.flow", [ysort], b, [Ob("d/dt Ad(exp(t y)) = ad_y Ad(exp(t y))  (at t=1, all y)", "DPhi", "adPhi")],
              functions=fns, lemmas=["L-ODE"], decide=dec, budget_s=300),
        Trace(f"C04.{n}.expad.init", [Const("y", [[0]] * na)], b0, [Ob("Ad(exp(0)) = I", "Phi0", "I")], functions=fns,
              decide=cells(series="taylor", gimbal="outside")),
    ]


class RaisesJob:
    """operations that must keep raising NotImplementedError (out of C04's scope by its quantifier)"""

    def __init__(self, id, thunk, functions=()):
        self.id, self.thunk, self.functions = id, thunk, list(functions)

    def run(self, seed=0):
        try:
            self.thunk()
        except NotImplementedError:
            return [Result(self.id, "raises NotImplementedError", PROVED, "STRUCT", "", 0.0, "still raises")]
        except Exception as e:
            return [Result(self.id, "raises NotImplementedError", REFUTED, "STRUCT", "", 0.0, f"raised {type(e).__name__}: {e}", {"inputs": {}})]
        return [Result(self.id, "raises NotImplementedError", REFUTED, "STRUCT", "", 0.0, "returned a value instead of raising", {"inputs": {}})]

    def replay(self, w):
        r = self.run()[0]
        return r.status == REFUTED, r.detail


QUICK = ["SO2", "SE2", "R2", "R3", "SO3Quat", "SO3Mrp", "SO3Dcm", "SO3Euler", "SE3Quat", "SE3Mrp", "SE23Quat", "SE23Mrp"]
EXPAD_QUICK = ["SO2", "SE2", "R3", "SO3Quat", "SO3Mrp", "SO3Dcm", "SE3Quat", "SE23Quat"]
# SE23Mrp is left out: its 9x9 flow obligation with MRP fractions does not normalise within an hour; the SE_2(3) block
# structure is covered by SE23Quat and the MRP parameterisation by SO3Mrp / SE3Mrp
EXPAD_THOROUGH = ["SE3Mrp", "SO3Euler", "R2"]


def product_traces(names, G):
    info = product_info(names, G)
    g = info.group.algebra
    na = info.n_alg
    infos = [G[n] for n in names]

    def b(x, y):
        ex = g.elem(x)
        ad = ex.ad()
        off = 0
        blocks = []
        for inf in infos:
            sub = inf.group.algebra.elem(x[off:off + inf.n_alg])
            suby = inf.group.algebra.elem(y[off:off + inf.n_alg])
            blocks.append((sub * suby).param)
            off += inf.n_alg
        hx, hy = info.alg_hat(x), info.alg_hat(y)
        return {"ad": ad, "ad_y": ad @ y, "brk_blocks": ca.vertcat(*blocks), "hat_ad_y": info.alg_hat(ad @ y), "comm": hx @ hy - hy @ hx,
                "hat_x": ex.to_Matrix(), "hat_x_spec": hx}

    return [Trace(f"C04.{info.name}.ad", [Free("x", na), Free("y", na)], b, [
        Ob("ad shape", "ad", (na, na), kind="shape"),
        Ob("direct-sum ad_x y = per-factor brackets", "ad_y", "brk_blocks"),
        Ob("hat(ad_x y) = commutator of block-diagonal matrices", "hat_ad_y", "comm"),
        Ob("algebra to_Matrix = block-diagonal hat", "hat_x", "hat_x_spec"),
    ], functions=[type(g).adjoint, type(g).to_Matrix])]


def traces(tier="quick"):
    G = make_groups()
    out = []
    for n in QUICK + (["SE3Dcm", "SE23Dcm", "SE3Euler", "SE23Euler"] if tier == "thorough" else []):
        out += group_traces(G[n], tier)
    for n in EXPAD_QUICK + (EXPAD_THOROUGH if tier == "thorough" else []):
        out += expad_traces(G[n], tier)
    out += product_traces(["SO3Mrp", "R3"], G)
    out += product_traces(["SE2", "SO3Quat"], G)
    if tier == "thorough":
        out += product_traces(["SE3Quat", "SO2", "R2"], G)
    return out


def jobs(tier="quick"):
    from .taylor_cell import jobs_for
    return _jobs(tier) + jobs_for(['SE3Quat.Ad(exp)'], "C04")


def _jobs(tier="quick"):
    G = make_groups()
    info = product_info(["SO3Mrp", "R3"], G)
    grp = info.group
    X = grp.elem(ca.SX.sym("X", grp.n_param))
    x = grp.algebra.elem(ca.SX.sym("x", info.n_alg))
    return [
        RaisesJob("C04.product.Ad-raises", lambda: X.Ad(), [type(grp).adjoint]),
        RaisesJob("C04.product.bracket-raises", lambda: x * x, [type(grp.algebra).bracket]),
    ]


def canaries(tier="quick"):
    G = make_groups()
    info = G["SE3Quat"]
    grp = info.group

    def b(X, y):
        eX = grp.elem(X)
        return {"hat_Ad_y": info.alg_hat(eX.Ad() @ y), "conj_wrong": eX.inverse().to_Matrix() @ info.alg_hat(y) @ eX.to_Matrix()}

    return [_Trace("C04.canary.SE3Quat.conj-inverted", [info.sort("X"), Free("y", 6)], b, [Ob("hat(Ad y) = M^-1 hat(y) M [false]", "hat_Ad_y", "conj_wrong")])]


MIN_OBLIGATIONS = {"quick": 100, "thorough": 150}
TRUSTED = [
    "A-GRAPH, A-REAL, own ring engine (see C01)",
    "CasADi forward AD (ca.jtimes) used to form the ray derivative of Ad(exp(y)); the derivative expression is part of the extracted graph and is replayed numerically",
]
ASSUMPTIONS = [
    "lemma L-ODE (machine-checked in Lean 4 / mathlib, lemmas/LinearODE.lean): Phi' = A Phi, Phi(0) = I has the unique solution expm(tA); used to read `flow` + `init` as Ad_exp = expm(ad)",
    "expad.flow is proved on the closed-form cell of every series coefficient (theta^2 >= 1e-3); the Taylor cell of SE(3) Ad(exp) is bounded rigorously in real arithmetic (taylor-cell obligation)",
    "Ad / bracket on direct products raise NotImplementedError and are out of scope by the property's quantifier (asserted to still raise)",
]
