"""C18 — Bezier trajectories: evaluation = Bernstein polynomial, derivative curves exact, boundary-value
solvers meet every requested boundary condition, stacked trajectory outputs are consistent derivatives.
All obligations are polynomial / rational identities in (t, T, control points, boundary data), T > 0."""
from __future__ import annotations

import io
import contextlib
from math import comb

import casadi as ca

from cyverif.harness import Ob
from cyverif.harness import Trace as _Trace
from cyverif.sorts import Free, Pos

with contextlib.redirect_stdout(io.StringIO()):
    from cyecca.models import bezier as bz


def bernstein(P, t, T):
    """spec: sum_k C(n,k) (1-b)^(n-k) b^k P_k,  b = t/T   (P: m x (n+1))"""
    n = P.shape[1] - 1
    b = t / T
    acc = ca.SX.zeros(P.shape[0], 1)
    for k in range(n + 1):
        acc = acc + comb(n, k) * (1 - b) ** (n - k) * b ** k * P[:, k]
    return acc


def ddt(e, t, m=1):
    for _ in range(m):
        e = ca.jacobian(e, t)
    return e


def class_traces(n, dim, max_m):
    def b(P, T, t):
        B = bz.Bezier(P, T)
        out = {"eval": B.eval(t), "bern": bernstein(P, t, T), "e0": B.eval(0), "P0": P[:, 0], "eT": B.eval(T), "Pn": P[:, n]}
        for m in range(1, max_m + 1):
            out[f"d{m}"] = B.deriv(m).eval(t)
            out[f"D{m}"] = ddt(bernstein(P, t, T), t, m)
        return out

    obs = [Ob("eval = Bernstein polynomial of the control points", "eval", "bern"), Ob("eval(0) = first control point", "e0", "P0"),
           Ob("eval(T) = last control point", "eT", "Pn")]
    for m in range(1, max_m + 1):
        obs.append(Ob(f"deriv({m}).eval = d^{m}/dt^{m} of the curve", f"d{m}", f"D{m}"))
    return _Trace(f"C18.Bezier.n{n}.dim{dim}", [Free("P", dim, n + 1), Pos("T"), Free("t", 1)], b, obs,
                  functions=[bz.Bezier.eval, bz.Bezier.deriv])


def solver_traces():
    T_ = []
    with contextlib.redirect_stdout(io.StringIO()):
        f3 = bz.derive_bezier3()
        f7 = bz.derive_bezier7()
        fm = bz.derive_multirotor()

    def b3(wp_0, wp_1, T, t):
        P = f3["bezier3_solve"](wp_0, wp_1, T)
        r = bernstein(P, t, T)
        at = lambda e, v: ca.substitute(e, t, v)
        return {"p0": at(r, 0), "v0": at(ddt(r, t), 0), "pT": at(r, T), "vT": at(ddt(r, t), T),
                "w00": wp_0[0], "w01": wp_0[1], "w10": wp_1[0], "w11": wp_1[1], "P": P}

    T_.append(_Trace("C18.bezier3_solve", [Free("wp_0", 2), Free("wp_1", 2), Pos("T"), Free("t", 1)], b3, [
        Ob("control points shape 1x4", "P", (1, 4), kind="shape"),
        Ob("position at 0", "p0", "w00"), Ob("velocity at 0", "v0", "w01"), Ob("position at T", "pT", "w10"), Ob("velocity at T", "vT", "w11")],
        functions=[bz.derive_bezier3]))

    def b7(wp_0, wp_1, T, t):
        P = f7["bezier7_solve"](wp_0, wp_1, T)
        r = bernstein(P, t, T)
        at = lambda e, v: ca.substitute(e, t, v)
        out = {"P": P}
        for k, nm in enumerate(["p", "v", "a", "j"]):
            out[f"{nm}0"] = at(ddt(r, t, k), 0)
            out[f"{nm}T"] = at(ddt(r, t, k), T)
            out[f"w0{k}"] = wp_0[k]
            out[f"w1{k}"] = wp_1[k]
        return out

    obs = [Ob("control points shape 1x8", "P", (1, 8), kind="shape")]
    for k, (nm, long) in enumerate([("p", "position"), ("v", "velocity"), ("a", "acceleration"), ("j", "jerk")]):
        obs.append(Ob(f"{long} at 0", f"{nm}0", f"w0{k}"))
        obs.append(Ob(f"{long} at T", f"{nm}T", f"w1{k}"))
    T_.append(_Trace("C18.bezier7_solve", [Free("wp_0", 4), Free("wp_1", 4), Pos("T"), Free("t", 1)], b7, obs, functions=[bz.derive_bezier7]))

    def traj(name, f, n, k):
        def b(t, T, P):
            r = f(t, T, P)
            p = bernstein(P, t, T)
            return {"r": r, "spec": ca.vertcat(*[ddt(p, t, m) for m in range(k)])}

        return _Trace(f"C18.{name}", [Free("t", 1), Pos("T"), Free("P", 1, n)], b,
                      [Ob("stacked output = (curve, d/dt, d2/dt2, ...) of the Bernstein polynomial", "r", "spec")],
                      functions=[bz.derive_bezier3 if n == 4 else bz.derive_bezier7])

    T_.append(traj("bezier3_traj", f3["bezier3_traj"], 4, 3))
    T_.append(traj("bezier7_traj", f7["bezier7_traj"], 8, 5))

    def bm(t, T, PX, PY, PZ, Ppsi):
        x, y, z, psi, dpsi, ddpsi, v, a, j, s = fm["bezier_multirotor"](t, T, PX, PY, PZ, Ppsi)
        pos = ca.vertcat(x, y, z)
        spec_pos = ca.vertcat(bernstein(PX, t, T), bernstein(PY, t, T), bernstein(PZ, t, T))
        return {"pos": pos, "spec_pos": spec_pos, "v": v, "dpos": ddt(pos, t), "a": a, "dv": ddt(v, t), "j": j, "da": ddt(a, t),
                "s": s, "dj": ddt(j, t), "psi": psi, "spec_psi": bernstein(Ppsi, t, T), "dpsi": dpsi, "d_psi": ddt(psi, t),
                "ddpsi": ddpsi, "d_dpsi": ddt(dpsi, t)}

    T_.append(_Trace("C18.bezier_multirotor", [Free("t", 1), Pos("T"), Free("PX", 1, 8), Free("PY", 1, 8), Free("PZ", 1, 8), Free("Ppsi", 1, 4)], bm, [
        Ob("position = Bernstein curves", "pos", "spec_pos"), Ob("v = d/dt position", "v", "dpos"), Ob("a = dv/dt", "a", "dv"),
        Ob("j = da/dt", "j", "da"), Ob("s = dj/dt", "s", "dj"), Ob("psi = Bernstein curve", "psi", "spec_psi"),
        Ob("psidot = d/dt psi", "dpsi", "d_psi"), Ob("psiddot = d/dt psidot", "ddpsi", "d_dpsi")], functions=[bz.derive_multirotor]))
    return T_


def traces(tier="quick"):
    out = []
    cfg = [(1, 1), (2, 2), (3, 1), (3, 3), (5, 2), (7, 1), (7, 3)]
    if tier == "thorough":
        cfg += [(4, 1), (6, 2), (8, 1), (9, 2), (10, 1), (10, 3)]
    for n, dim in cfg:
        out.append(class_traces(n, dim, n))
    out += solver_traces()
    return out


def canaries(tier="quick"):
    def b(P, T, t):
        B = bz.Bezier(P, T)
        return {"d1": B.deriv(1).eval(t), "wrong": ddt(bernstein(P, t, T), t, 1) * T}

    return [_Trace("C18.canary.deriv-unscaled", [Free("P", 1, 4), Pos("T"), Free("t", 1)], b, [Ob("deriv = T * d/dt [false]", "d1", "wrong")])]


MIN_OBLIGATIONS = {"quick": 50, "thorough": 100}
TRUSTED = ["A-GRAPH, A-REAL, own ring engine (see C01)", "CasADi symbolic differentiation (ca.jacobian w.r.t. t) forms the spec-side time derivatives",
           "ca.inv of the constraint Jacobian is inlined in the extracted graph (no contract assumed)"]
ASSUMPTIONS = ["requires T > 0", "the generic Bezier class is checked per degree n and dimension (n is a Python loop bound): degrees/dimensions listed in coverage.contracts; 'for all n' is not claimed"]
