"""C03 — log inverts exp and returns the principal rotation vector.

rt1       : to_Matrix(exp(log X)) = to_Matrix(X)                 (every group, X of the group's sort)
rt2       : log(exp x) = x   under requires angle(x) < pi          (collapsing rules acos(cos b) = b need exactly this)
principal : |rotation part of log X|^2 <= pi^2 for canonical inputs (SMT with range/monotonicity axioms of acos/atan)
Representation independence follows from rt1 + principal by lemma L-ROTVEC (a rotation of angle < pi has a
unique rotation vector of norm < pi)."""
from __future__ import annotations

import casadi as ca

from cyverif.harness import Ob, cells
from cyverif.harness import Trace as _Trace
from cyverif.sorts import Angle, Composite, Free, PiConst, RotVec, UnitQuat
from . import spec
from .groups import make_groups, product_info

CLOSED = cells(series="closed", gimbal="outside")


def fns_of(info):
    out = [type(info.group).log, type(info.group).exp, type(info.group).to_Matrix]
    if info.so3:
        from .groups import SO3_GROUPS
        out += [type(SO3_GROUPS[info.so3]).log, type(SO3_GROUPS[info.so3]).exp]
    return out


def rot_index(info):
    return {"so3": 0, "se3": 3, "se23": 6}.get(info.kind)


def canonical_sort(info, n):
    """the property's canonical inputs: MRPs of norm at most 1 (any unit quaternion, any DCM / Euler triple)"""
    if info.so3 != "Mrp":
        return info.sort(n)
    mrp = lambda nm: Free(nm, 3, scale=0.55, norm_le=1)
    if info.kind == "so3":
        return mrp(n)
    if info.kind == "se3":
        return Composite(n, [Free(n + "_p", 3), mrp(n + "_r")])
    return Composite(n, [Free(n + "_p", 3), Free(n + "_v", 3), mrp(n + "_r")])


def rt1_trace(info, tier):
    grp, n = info.group, info.name

    def b(X, pi):
        ex = grp.elem(X)
        lg = ex.log()
        back = lg.exp(grp)
        out = {"M_back": back.to_Matrix(), "M_X": ex.to_Matrix()}
        ri = rot_index(info)
        if ri is not None:
            w = lg.param[ri:ri + 3]
            out.update({"angle_sq": ca.dot(w, w), "pi_sq": pi * pi})
        return out

    sort = canonical_sort(info, "X")
    obs = [Ob("rt1: M(exp(log X)) = M(X)", "M_back", "M_X")]
    if rot_index(info) is not None:
        obs.append(Ob("principal: |rot(log X)|^2 <= pi^2", "angle_sq", "pi_sq", kind="le", tol=1e-9))
    return _Trace(f"C03.{n}.rt1", [sort, PiConst()], b, obs, functions=fns_of(info), decide=CLOSED, budget_s=900,
                  lemmas=["L-ROTVEC"], smt_timeout=20)


def alg_sort_lt_pi(info, name="y"):
    """algebra element with rotation angle < pi (requires of rt2).  base angle: theta/2 for quaternions
    (phi in [0, pi/2)), theta/4 for MRPs (phi in [0, pi/4)), theta itself for DCM/Euler (phi in [0, pi))."""
    if info.so3 in ("Quat",):
        rv = RotVec(name + "_w", 2, 0.2, 3.0, phi_range="0_halfpi")
    elif info.so3 == "Mrp":
        rv = RotVec(name + "_w", 4, 0.2, 3.0, phi_range="0_quarterpi")
    else:
        rv = RotVec(name + "_w", 1, 0.2, 3.0, phi_range="0_pi")
    if info.kind == "so3":
        parts = [rv]
    elif info.kind == "se3":
        parts = [Free(name + "_v", 3), rv]
    elif info.kind == "se23":
        parts = [Free(name + "_v", 3), Free(name + "_a", 3), rv]
    elif info.kind == "se2":
        parts = [Free(name + "_v", 2), Angle(name + "_th", 1, -3.0, 3.0)]
    elif info.kind == "so2":
        parts = [Angle(name + "_th")]
    else:
        parts = [Free(name + "_", info.n_alg)]
    return Composite(name, parts)


def rt2_trace(info, tier, first_shepperd_only=False):
    grp, g, n = info.group, info.group.algebra, info.name
    if first_shepperd_only:
        # SE_2(3): exp goes through the rotation matrix and Shepperd's matrix-to-quaternion method.  The requires
        # angle < 2 pi / 3 (trace = 1 + 2 cos(angle) > 0) selects its first branch; the other branches become dead paths,
        # which the SMT back end must PROVE infeasible (they are never skipped silently)
        def req(rs, sorts):
            rv = [p for p in sorts["y"].parts if hasattr(p, "phi")][-1]
            c = rs.poly(rv.c)
            if rv.k == 2:      # c = cos(angle / 2): cos(angle) = 2 c^2 - 1 > -1/2
                return [c > 0, 4 * c * c > 1]
            c2 = 2 * c * c - 1  # c = cos(angle / 4)
            return [c > 0, c2 > 0, 4 * c2 * c2 > 1]

        def b1(y):
            back = g.elem(y).exp(grp).log()
            return {"back": back.param, "y": y}

        return _Trace(f"C03.{n}.rt2", [alg_sort_lt_pi(info)], b1, [Ob("rt2: log(exp y) = y  (angle(y) < 2 pi / 3)", "back", "y")],
                      functions=fns_of(info), decide=CLOSED, budget_s=900, requires_smt=req, smt_timeout=30,
                      note="requires rotation angle < 2 pi / 3 (first Shepperd branch of from_Matrix); for 2 pi / 3 <= angle < pi the obligation is not decided")

    def b(y):
        back = g.elem(y).exp(grp).log()
        return {"back": back.param, "y": y}

    return _Trace(f"C03.{n}.rt2", [alg_sort_lt_pi(info)], b, [Ob("rt2: log(exp y) = y  (angle(y) < pi)", "back", "y")],
                  functions=fns_of(info), decide=CLOSED, budget_s=900,
                  note="requires rotation angle < pi: enables acos(cos b) = b / atan(tan b) = b; MRP: no shadow switch below pi")


def euler_wiring():
    """SO3Euler.log = SO3Dcm.log o SO3Dcm.from_Euler and SO3Euler.exp = from_Dcm o SO3Dcm.exp, checked modularly:
    the callees are replaced by opaque results (their contracts are C07.Dcm.from_Euler, C03.SO3Dcm.rt1/rt2/principal,
    C07.Euler.from_Dcm); obligations: each callee receives exactly the previous result, the final result is returned
    unchanged.  Hence M(exp(log X)) = M(X) and the principal-angle bound carry over to Euler form."""
    from cyecca.lie.group_so3 import SO3Dcm, SO3EulerB321, SO3DcmLieGroup, SO3EulerLieGroup, so3

    def b(X, D1, w1, y, D2, E2):
        calls = {}
        saved = (SO3DcmLieGroup.from_Euler, SO3DcmLieGroup.log, SO3DcmLieGroup.exp, SO3EulerLieGroup.from_Dcm)

        def s_from_Euler(self, arg):
            calls.setdefault("from_Euler", []).append(arg.param)
            return SO3Dcm.elem(D1)

        def s_log(self, arg):
            calls.setdefault("log", []).append(arg.param)
            return so3.elem(w1)

        def s_exp(self, arg):
            calls.setdefault("exp", []).append(arg.param)
            return SO3Dcm.elem(D2)

        def s_from_Dcm(self, arg):
            calls.setdefault("from_Dcm", []).append(arg.param)
            return SO3EulerB321.elem(E2)

        SO3DcmLieGroup.from_Euler, SO3DcmLieGroup.log, SO3DcmLieGroup.exp, SO3EulerLieGroup.from_Dcm = s_from_Euler, s_log, s_exp, s_from_Dcm
        try:
            lg = SO3EulerB321.elem(X).log()
            ex = so3.elem(y).exp(SO3EulerB321)
        finally:
            SO3DcmLieGroup.from_Euler, SO3DcmLieGroup.log, SO3DcmLieGroup.exp, SO3EulerLieGroup.from_Dcm = saved
        assert {k: len(v) for k, v in calls.items()} == {"from_Euler": 1, "log": 1, "exp": 1, "from_Dcm": 1}, calls
        return {"a_from_Euler": calls["from_Euler"][0], "X": X, "a_log": calls["log"][0], "D1": D1, "r_log": lg.param, "w1": w1,
                "a_exp": calls["exp"][0], "y": y, "a_from_Dcm": calls["from_Dcm"][0], "D2": D2, "r_exp": ex.param, "E2": E2}

    return _Trace("C03.SO3Euler.wiring", [Free("X", 3), Free("D1", 9), Free("w1", 3), Free("y", 3), Free("D2", 9), Free("E2", 3)], b, [
        Ob("log: SO3Dcm.from_Euler receives X", "a_from_Euler", "X"), Ob("log: SO3Dcm.log receives that DCM", "a_log", "D1"),
        Ob("log: result of SO3Dcm.log returned unchanged", "r_log", "w1"),
        Ob("exp: SO3Dcm.exp receives y", "a_exp", "y"), Ob("exp: from_Dcm receives that DCM", "a_from_Dcm", "D2"),
        Ob("exp: result of from_Dcm returned unchanged", "r_exp", "E2")],
        functions=[SO3EulerLieGroup.log, SO3EulerLieGroup.exp], definedness=False,
        lemmas=["callee-contract C07.Dcm.from_Euler", "callee-contract C03.SO3Dcm.rt1", "callee-contract C07.Euler.from_Dcm"],
        note="modular: callee contracts assumed at the call sites; each is discharged in its own trace")


QUICK = ["SO2", "SE2", "R2", "R3", "SO3Quat", "SO3Mrp", "SO3Dcm", "SE3Quat", "SE3Mrp", "SE23Quat"]
THOROUGH = ["SE3Dcm", "SE23Dcm", "SE23Mrp"]
RT2 = ["SO2", "SE2", "R3", "SO3Quat", "SO3Mrp", "SO3Dcm", "SE3Quat", "SE3Mrp"]


def exp_canonical_trace(info):
    """exp returns a CANONICAL element (what log's contract and rt2 assume about it): MRP part of norm <= 1 (non-shadow
    branch) resp. unit quaternion, for every algebra element with rotation angle < pi, on every branch of the real code"""
    grp, g, n = info.group, info.group.algebra, info.name
    off = {"so3": 0, "se3": 3, "se23": 6}[info.kind]

    def b(y):
        X = g.elem(y).exp(grp)
        r = X.param[off:off + (3 if info.so3 == "Mrp" else 4)]
        return {"norm_sq": ca.dot(r, r), "one": ca.SX.ones(1, 1)}

    kind = "le" if info.so3 == "Mrp" else "eq"
    return _Trace(f"C03.{n}.exp-canonical", [alg_sort_lt_pi(info)], b,
                  [Ob("exp returns a canonical element: |r|^2 <= 1 (non-shadow MRP)" if kind == "le" else "exp returns a unit quaternion", "norm_sq", "one", kind=kind)],
                  functions=fns_of(info), decide=CLOSED, budget_s=900, smt_timeout=30, max_paths=128, definedness=False)


def traces(tier="quick"):
    G = make_groups()
    out = []
    for n in ["SO3Mrp", "SE3Mrp", "SE23Mrp", "SE23Quat"]:
        out.append(exp_canonical_trace(G[n]))
    for n in QUICK + (THOROUGH if tier == "thorough" else []):
        out.append(rt1_trace(G[n], tier))
    for n in RT2:
        out.append(rt2_trace(G[n], tier))
    for n in ["SE23Quat"]:  # SE23Mrp: the sign atoms of |r| = tan(angle/4) block the collapsing rule atan(tan b) = b: not decided
        out.append(rt2_trace(G[n], tier, first_shepperd_only=True))
    out.append(euler_wiring())
    out.append(rt1_trace(product_info(["SO3Mrp", "R3"], G), tier))
    return out


def canaries(tier="quick"):
    G = make_groups()
    info = G["SO3Quat"]
    grp = info.group

    def b(X):
        ex = grp.elem(X)
        lg = ex.log()
        back = grp.algebra.elem(2 * lg.param).exp(grp)
        return {"M_back": back.to_Matrix(), "M_X": ex.to_Matrix()}

    return [_Trace("C03.canary.SO3Quat.exp-of-twice-log", [info.sort("X")], b, [Ob("M(exp(2 log X)) = M(X) [false]", "M_back", "M_X")], decide=CLOSED)]


MIN_OBLIGATIONS = {"quick": 25, "thorough": 30}
TRUSTED = ["A-GRAPH, A-REAL, own ring engine (see C01)",
           "z3/cvc5 (QF_NRA) with stated range/monotonicity axioms for acos/asin/atan atoms and 15-digit bounds on pi"]
ASSUMPTIONS = [
    "lemma L-ROTVEC (machine-checked in Lean 4 / mathlib, lemmas/RotVec.lean + the sign half of L-SO3 in lemmas/SO3Cover.lean): a rotation with angle < pi has a unique rotation vector of norm < pi (representation independence = rt1 + principal); the surjectivity half of L-SO3 (every rotation matrix is R(q)) is machine-checked too (lemmas/SO3Surj.lean)",
    "lemma L-SO3: DCM inputs are R(q), |q| = 1",
    "closed-form cell of every series coefficient (rotation not within ~1e-3..3e-2 rad of 0; Taylor cell in C06); requires a margin from the pi singularity where x/sin(x) is undefined (divisors listed per path)",
    "MRP inputs for `principal` are canonical: |r| <= 1 (sort restriction, as in the property text)",
    "rt2 (log(exp x) = x) for SE_2(3) is decided for the quaternion representation and rotation angles below 2 pi / 3 only (not for SE23Mrp): its exp goes through from_Matrix (Shepperd); on the other three branches (2 pi / 3 <= angle < pi) the sign atoms "
    "hide cos(angle/2) from the collapsing rule acos(cos b) = b; rt1 + principal are decided on all branches",
]
