"""C05 — Jacobians are the true differentials of exp and of the attitude kinematics.

dexpL : dPhi(y)[d] = hat(J_l(y) d) Phi(y)      dexpR : dPhi(y)[d] = Phi(y) hat(J_r(y) d)
for a SYMBOLIC direction d (both sides are linear in d, so this is the statement for all directions),
Phi(y) = to_Matrix(exp(y)); plus J J^-1 = I, J_l = Ad_exp J_r, J_l(y) = J_r(-y), Q blocks;
group level: quaternion world/body-frame and MRP body-frame kinematic Jacobians.
"""
from __future__ import annotations

import casadi as ca

from cyverif.harness import Ob, cells
from cyverif.harness import Trace as _Trace
from cyverif.sorts import Free, UnitQuat
from . import spec
from .groups import alg_sort, make_groups

CLOSED = cells(series="closed", gimbal="outside")


def jac_traces(info, G, tier):
    grp, g, n, na = info.group, info.group.algebra, info.name, info.n_alg
    N = grp.matrix_shape[0]
    A = type(g)
    fns = [A.left_jacobian, A.left_jacobian_inv, A.right_jacobian, A.right_jacobian_inv, type(grp).exp, type(grp).to_Matrix]
    if info.kind == "se3":
        fns += [A.left_Q, A.right_Q]
    from cyecca.lie.group_so3 import SO3LieAlgebra
    from cyecca.lie.group_se3 import SE3LieAlgebra
    fns += [SO3LieAlgebra.left_jacobian, SO3LieAlgebra.right_jacobian, SO3LieAlgebra.left_jacobian_inv, SO3LieAlgebra.right_jacobian_inv]
    if info.kind == "se23":
        fns += [SE3LieAlgebra.left_Q, SE3LieAlgebra.right_Q]

    def b_dexp(y, d):
        ey = g.elem(y)
        Phi = ey.exp(grp).to_Matrix()
        dPhi = ca.reshape(ca.jtimes(ca.reshape(Phi, N * N, 1), y, d), N, N)
        Jl, Jr = ey.left_jacobian(), ey.right_jacobian()
        return {"dPhi": dPhi, "L": info.alg_hat(Jl @ d) @ Phi, "R": Phi @ info.alg_hat(Jr @ d), "Jl": Jl}

    def b_alg(y):
        ey = g.elem(y)
        Jl, Jr, Jli, Jri = ey.left_jacobian(), ey.right_jacobian(), ey.left_jacobian_inv(), ey.right_jacobian_inv()
        out = {"JlJli": Jl @ Jli, "JliJl": Jli @ Jl, "JrJri": Jr @ Jri, "JriJr": Jri @ Jr, "I": spec.I(na),
               "Jl": Jl, "Jr_neg": g.elem(-y).right_jacobian(), "AdJr": ey.exp(grp).Ad() @ Jr}
        if info.kind == "se3":
            out.update({"Ql": ey.left_Q(), "Qr": ey.right_Q(), "Ql_neg": g.elem(-y).left_Q(), "Jl_blk": Jl[0:3, 3:6], "Jr_blk": Jr[0:3, 3:6]})
        return out

    obs = [Ob("J_l J_l^-1 = I", "JlJli", "I"), Ob("J_l^-1 J_l = I", "JliJl", "I"), Ob("J_r J_r^-1 = I", "JrJri", "I"),
           Ob("J_r^-1 J_r = I", "JriJr", "I"), Ob("J_l(y) = J_r(-y)", "Jl", "Jr_neg"), Ob("J_l = Ad_exp(y) J_r", "Jl", "AdJr")]
    if info.kind == "se3":
        obs += [Ob("right_Q(y) = left_Q(-y)", "Qr", "Ql_neg"), Ob("left_Q is the off-diagonal block of J_l", "Jl_blk", "Ql"),
                Ob("right_Q is the off-diagonal block of J_r", "Jr_blk", "Qr")]
    return [
        _Trace(f"C05.{n}.dexp", [alg_sort(info, "y", G), Free("d", na)], b_dexp, [
            Ob("Jacobian shape", "Jl", (na, na), kind="shape"),
            Ob("dexpL: D M(exp y)[d] = hat(J_l d) M(exp y)", "dPhi", "L"),
            Ob("dexpR: D M(exp y)[d] = M(exp y) hat(J_r d)", "dPhi", "R")], functions=fns, decide=CLOSED, budget_s=900),
        _Trace(f"C05.{n}.alg", [alg_sort(info, "y", G)], b_alg, obs, functions=fns, decide=CLOSED, budget_s=900),
    ]


def group_level():
    from cyecca.lie.group_so3 import SO3Quat, SO3Mrp, SO3QuatLieGroup, SO3MrpLieGroup
    T = []

    def b_quat(q, w):
        e = SO3Quat.elem(q)
        Jl, Jr = e.left_jacobian(), e.right_jacobian()
        M = spec.R_quat(q)  # rotation matrix as a function on R^4 (spec); to_Matrix = spec is C01's obligation
        Mreal = e.to_Matrix()
        def dM(qd, MM):
            return ca.reshape(ca.jtimes(ca.reshape(MM, 9, 1), q, qd), 3, 3)
        return {"dM_l": dM(Jl @ w, Mreal), "hatM": spec.hat3(w) @ Mreal, "dM_r": dM(Jr @ w, Mreal), "Mhat": Mreal @ spec.hat3(w),
                "q_dot_l": ca.dot(q, Jl @ w), "q_dot_r": ca.dot(q, Jr @ w), "Jl": Jl, "Jr": Jr}

    T.append(_Trace("C05.SO3Quat.kinematic", [UnitQuat("q"), Free("w", 3)], b_quat, [
        Ob("left_jacobian shape 4x3", "Jl", (4, 3), kind="shape"), Ob("right_jacobian shape 4x3", "Jr", (4, 3), kind="shape"),
        Ob("world-frame: q' = J_l(q) w  =>  R' = [w]x R", "dM_l", "hatM"),
        Ob("body-frame: q' = J_r(q) w  =>  R' = R [w]x", "dM_r", "Mhat"),
        Ob("unit norm kept (left): q . q' = 0", "q_dot_l", None), Ob("unit norm kept (right): q . q' = 0", "q_dot_r", None),
    ], functions=[SO3QuatLieGroup.left_jacobian, SO3QuatLieGroup.right_jacobian, SO3QuatLieGroup.product, SO3QuatLieGroup.to_Matrix]))

    def b_mrp(r, w):
        e = SO3Mrp.elem(r)
        Jr = e.right_jacobian()
        M = e.to_Matrix()
        dM = ca.reshape(ca.jtimes(ca.reshape(M, 9, 1), r, Jr @ w), 3, 3)
        return {"dM": dM, "Mhat": M @ spec.hat3(w), "Jr": Jr}

    T.append(_Trace("C05.SO3Mrp.kinematic", [Free("r", 3, scale=0.9), Free("w", 3)], b_mrp, [
        Ob("right_jacobian shape 3x3", "Jr", (3, 3), kind="shape"),
        Ob("body-frame: r' = J_r(r) w  =>  R' = R [w]x", "dM", "Mhat")],
        functions=[SO3MrpLieGroup.right_jacobian, SO3MrpLieGroup.to_Matrix]))
    return T


QUICK = ["SO3Quat", "SO3Mrp", "SO3Dcm", "SE3Quat", "SE3Mrp", "SE23Quat"]
THOROUGH = ["SO3Euler", "SE23Mrp", "SE3Dcm"]


def traces(tier="quick"):
    G = make_groups()
    out = group_level()
    for n in QUICK + (THOROUGH if tier == "thorough" else []):
        out += jac_traces(G[n], G, tier)
    return out


def jobs(tier="quick"):
    """the Taylor cell of every series coefficient: rigorous real-arithmetic bound |code - exact| <= 1e-11"""
    from .taylor_cell import jobs_for
    return jobs_for(['so3.left_jacobian', 'so3.left_jacobian_inv', 'so3.right_jacobian', 'so3.right_jacobian_inv', 'se3.left_Q', 'se3.left_jacobian', 'se3.right_jacobian', 'se3.left_jacobian_inv', 'se3.right_jacobian_inv', 'se23.left_jacobian', 'se23.right_jacobian', 'se23.left_jacobian_inv'], "C05")


def canaries(tier="quick"):
    G = make_groups()
    info = G["SE3Quat"]
    grp, g = info.group, info.group.algebra

    def b(y, d):
        ey = g.elem(y)
        Phi = ey.exp(grp).to_Matrix()
        dPhi = ca.reshape(ca.jtimes(ca.reshape(Phi, 16, 1), y, d), 4, 4)
        return {"dPhi": dPhi, "wrong": info.alg_hat(ey.right_jacobian() @ d) @ Phi}

    return [_Trace("C05.canary.SE3Quat.left-with-right-jacobian", [alg_sort(info, "y", G), Free("d", 6)], b,
                   [Ob("D M(exp y)[d] = hat(J_r d) M(exp y) [false]", "dPhi", "wrong")], decide=CLOSED)]


MIN_OBLIGATIONS = {"quick": 60, "thorough": 90}
TRUSTED = [
    "A-GRAPH, A-REAL, own ring engine (see C01)",
    "CasADi forward AD (ca.jtimes) forms the directional derivative of M(exp(y)); the derivative is part of the extracted graph and replayed numerically",
]
ASSUMPTIONS = [
    "proved on the closed-form cell of every series coefficient (theta^2 >= 1e-3), for all 0 < theta (the inverse-Jacobian coefficient is undefined at theta = 2 pi k: requires theta < 2 pi); on the Taylor cell the real-arithmetic deviation is bounded rigorously (taylor-cell obligations, <= 1e-11, translations in [-1, 1])",
    "the first-order expansion exp(y+d) = exp(J_l d) exp(y) + o(d) is read off the differential identity dexpL/dexpR (definition of the derivative)",
]
