"""C07 — SO(3) representation conversions preserve the rotation and yield valid parameters."""
from __future__ import annotations

import casadi as ca

from cyverif.harness import Ob, cells, PROVED, REFUTED, Result
from cyverif.harness import Trace as _Trace
from cyverif.sorts import Free
from . import spec
from .groups import SO3_GROUPS, make_groups, so3_sort, so3_spec

POL = cells(series="closed", gimbal="outside")
REPS = ["Quat", "Mrp", "Dcm", "Euler"]


def validity_obs(dst, outs_prefix="v_"):
    if dst == "Quat":
        return [Ob("valid: unit quaternion |q|^2 = 1", "v_norm", "v_one")]
    if dst == "Dcm":
        return [Ob("valid: R^T R = I", "v_RtR", "v_I"), Ob("valid: det R = +1", "v_det", "v_one")]
    if dst == "Mrp":
        return [Ob("valid: non-shadow branch |r|^2 <= 1", "v_norm", "v_one", kind="le")]
    return []


def validity_outs(dst, elem):
    p = elem.param
    one = ca.SX.ones(1, 1)
    if dst == "Quat":
        return {"v_norm": ca.dot(p, p), "v_one": one}
    if dst == "Dcm":
        R = spec.R_dcm(p)
        return {"v_RtR": R.T @ R, "v_I": spec.I(3), "v_det": ca.det(R), "v_one": one}
    if dst == "Mrp":
        return {"v_norm": ca.dot(p, p), "v_one": one}
    return {}


class PitchIsAsin:
    """Euler pitch in [-pi/2, pi/2]: on every branch the pitch output of the real conversion is the node
    asin(.) (range fact of asin), checked structurally on the extracted graph."""

    def __init__(self, id, src, build, functions):
        self.id, self.src, self.build, self.functions = id, src, build, functions

    def run(self, seed=0):
        from cyverif import ir
        s = so3_sort(self.src)("X")
        X = s.sx()
        e = self.build(X)
        g, on, _ = ir.extract({"X": X}, {"p": e.param})
        n = on["p"][1][0]

        def ok(n):
            op, args, _ = g.nodes[n]
            if op == "ASIN":
                return True
            if op == "ADD":
                return all(ok(a) for a in args)
            if op == "IF_ELSE_ZERO":
                return ok(args[1])
            if op == "CONST":
                return abs(float(g.payload(n))) <= 1.5707963267948966
            return False

        st = PROVED if n is not None and ok(n) else REFUTED
        return [Result(self.id, "valid: Euler pitch is asin(.) on every branch, hence in [-pi/2, pi/2]", st, "STRUCT", "", 0.0,
                       "pitch node is a sum of if_else_zero-selected asin nodes" if st == PROVED else f"pitch node op {g.op(n) if n is not None else None}",
                       None if st == PROVED else {"inputs": {}})]

    def replay(self, w):
        r = self.run()[0]
        return r.status == REFUTED, r.detail


def modular_via_from_matrix(src, dst):
    """dst.from_<src> = dst.from_Matrix o src.to_Matrix, checked modularly: the callee from_Matrix is replaced
    by its CONTRACT (returns an opaque element Y with M(Y) = arg and valid parameters, proved for every rotation
    matrix in trace C07.<dst>.from_Matrix); obligations at the call site: the argument handed over is the
    rotation matrix of the source element, and the callee's result is returned unchanged."""
    gs, gd = SO3_GROUPS[src], SO3_GROUPS[dst]
    cls = type(gd)

    def b(X, Y):
        captured = []
        real = cls.from_Matrix

        def stub(self, arg):
            captured.append(arg)
            return gd.elem(Y)

        cls.from_Matrix = stub
        try:
            out = getattr(gd, "from_" + src)(gs.elem(X))
        finally:
            cls.from_Matrix = real
        assert len(captured) == 1, f"from_Matrix called {len(captured)} times"
        return {"arg": captured[0], "M_src_spec": so3_spec(src)(X), "ret": out.param, "Y": Y}

    return _Trace(f"C07.{dst}.from_{src}", [so3_sort(src)("X"), Free("Y", gd.n_param)], b, [
        Ob("call site: from_Matrix receives the rotation matrix of the source element", "arg", "M_src_spec"),
        Ob("call site: the callee's result is returned unchanged (frame)", "ret", "Y")],
        functions=[getattr(cls, "from_" + src), type(gs).to_Matrix], decide=POL,
        note=f"modular: callee contract of {dst}.from_Matrix (trace C07.{dst}.from_Matrix) assumed at the call site",
        lemmas=[f"callee-contract C07.{dst}.from_Matrix"])


def conv_traces(tier):
    T = []
    for src in REPS:
        for dst in REPS:
            if src == dst:
                continue
            gs, gd = SO3_GROUPS[src], SO3_GROUPS[dst]
            meth = getattr(gd, "from_" + src)
            if (src, dst) == ("Euler", "Mrp"):
                T.append(modular_via_from_matrix(src, dst))
                continue

            def b(X, gs=gs, gd=gd, meth=meth, src=src, dst=dst):
                ex = gs.elem(X)
                out = meth(ex)
                d = {"M_out": out.to_Matrix(), "M_src_spec": so3_spec(src)(X), "M_src": ex.to_Matrix()}
                d.update(validity_outs(dst, out))
                return d

            obs = [Ob(f"same rotation: M(from_{src}(X)) = R_spec(X)", "M_out", "M_src_spec"), Ob("source to_Matrix = spec", "M_src", "M_src_spec")]
            obs += validity_obs(dst)
            T.append(_Trace(f"C07.{dst}.from_{src}", [so3_sort(src)("X")], b, obs,
                            functions=[getattr(type(gd), "from_" + src), type(gd).to_Matrix, type(gs).to_Matrix], decide=POL, budget_s=600))
    # from_Matrix entry points on an orthonormal matrix R(q)
    from cyverif.sorts import DcmOfQuat
    for dst in REPS:
        gd = SO3_GROUPS[dst]

        def bm(M, gd=gd, dst=dst):
            out = gd.from_Matrix(M)
            d = {"M_out": out.to_Matrix(), "M": M}
            d.update(validity_outs(dst, out))
            return d

        T.append(_Trace(f"C07.{dst}.from_Matrix", [DcmOfQuat("M", as_matrix=True)], bm,
                        [Ob("same rotation: M(from_Matrix(R)) = R", "M_out", "M")] + validity_obs(dst),
                        functions=[type(gd).from_Matrix, type(gd).to_Matrix], decide=POL, budget_s=600, lemmas=["L-SO3"]))
    # shadow switch never changes the rotation
    from cyecca.lie.group_so3 import SO3Mrp, SO3MrpLieGroup

    def bs(r):
        e = SO3Mrp.elem(r)
        M0 = spec.R_mrp(r)
        SO3Mrp.shadow_if_necessary(e)
        return {"M_after": e.to_Matrix(), "M_before": M0, "v_norm": ca.dot(e.param, e.param), "v_one": ca.SX.ones(1, 1)}

    T.append(_Trace("C07.Mrp.shadow_if_necessary", [Free("r", 3, scale=2.0)], bs,
                    [Ob("shadow switch keeps the rotation", "M_after", "M_before"), Ob("valid: |r|^2 <= 1 after the switch", "v_norm", "v_one", kind="le")],
                    functions=[SO3MrpLieGroup.shadow_if_necessary], decide=POL,
                    sample_filter=lambda v: sum(x[0] ** 2 for x in v["r"]) > 1e-2))
    return T


def traces(tier="quick"):
    return conv_traces(tier)


def jobs(tier="quick"):
    from cyecca.lie.group_so3 import SO3EulerB321, SO3EulerLieGroup
    J = []
    for src in ("Quat", "Mrp", "Dcm"):
        gs = SO3_GROUPS[src]
        J.append(PitchIsAsin(f"C07.Euler.from_{src}.pitch", src, lambda X, gs=gs, src=src: getattr(SO3EulerB321, "from_" + src)(gs.elem(X)),
                             [SO3EulerLieGroup.from_Matrix]))
    return J


def canaries(tier="quick"):
    from cyecca.lie.group_so3 import SO3Quat, SO3Mrp

    def b(X):
        out = SO3Quat.from_Mrp(SO3Mrp.elem(X))
        return {"M_out": out.to_Matrix(), "M_T": spec.R_mrp(X).T}

    return [_Trace("C07.canary.Quat.from_Mrp-transposed", [Free("X", 3, scale=0.9)], b, [Ob("M(from_Mrp(r)) = R(r)^T [false]", "M_out", "M_T")])]


MIN_OBLIGATIONS = {"quick": 50, "thorough": 50}
TRUSTED = ["A-GRAPH, A-REAL, own ring engine (see C01)", "z3 4.x / cvc5 (QF_NRA) for the |r|^2 <= 1 and divisor-nonzero obligations"]
ASSUMPTIONS = [
    "lemma L-SO3 (not machine-checked): every rotation matrix is R(q) for a unit quaternion q of either sign (sort of the from_Matrix inputs)",
    "requires: Euler pitch outside the +-1e-3 rad gimbal band (exactness claim); the in-band tolerance clause (K*1e-3) is not decided here",
    "requires: quaternion -> MRP away from q0 = -1 (divisor 1 + q0), see the unchecked definedness assumptions in coverage",
]
