"""C07 — SO(3) representation conversions preserve the rotation and yield valid parameters."""
from __future__ import annotations

import casadi as ca

from cyverif.harness import ERROR, Ob, cells, PROVED, REFUTED, UNDECIDED, Result
from cyverif.harness import Trace as _Trace
from cyverif.ring import Frac
from cyverif.sorts import Free
from . import spec
from .groups import SO3_GROUPS, make_groups, so3_sort, so3_spec

POL = cells(series="closed", gimbal="outside")
REPS = ["Quat", "Mrp", "Dcm", "Euler"]


def validity_obs(dst, outs_prefix="v_"):
    if dst == "Quat":
        return [Ob("valid: unit quaternion |q|^2 = 1", "v_norm", "v_one")]
    if dst == "Dcm":
        return [Ob("valid: R^T R = I", "v_RtR", "v_I"), Ob("valid: det R = +1", "v_det", "v_one")]
    if dst == "Mrp":
        return [Ob("valid: non-shadow branch |r|^2 <= 1", "v_norm", "v_one", kind="le")]
    return []


def validity_outs(dst, elem):
    p = elem.param
    one = ca.SX.ones(1, 1)
    if dst == "Quat":
        return {"v_norm": ca.dot(p, p), "v_one": one}
    if dst == "Dcm":
        R = spec.R_dcm(p)
        return {"v_RtR": R.T @ R, "v_I": spec.I(3), "v_det": ca.det(R), "v_one": one}
    if dst == "Mrp":
        return {"v_norm": ca.dot(p, p), "v_one": one}
    return {}


class PitchIsAsin:
    """Euler pitch in [-pi/2, pi/2]: on every branch the pitch output of the real conversion is the node
    asin(.) (range fact of asin), checked structurally on the extracted graph."""

    def __init__(self, id, src, build, functions):
        self.id, self.src, self.build, self.functions = id, src, build, functions

    def run(self, seed=0):
        from cyverif import ir
        s = so3_sort(self.src)("X")
        X = s.sx()
        e = self.build(X)
        g, on, _ = ir.extract({"X": X}, {"p": e.param})
        n = on["p"][1][0]

        def ok(n):
            op, args, _ = g.nodes[n]
            if op == "ASIN":
                return True
            if op == "ADD":
                return all(ok(a) for a in args)
            if op == "IF_ELSE_ZERO":
                return ok(args[1])
            if op == "CONST":
                return abs(float(g.payload(n))) <= 1.5707963267948966
            return False

        st = PROVED if n is not None and ok(n) else REFUTED
        return [Result(self.id, "valid: Euler pitch is asin(.) on every branch, hence in [-pi/2, pi/2]", st, "STRUCT", "", 0.0,
                       "pitch node is a sum of if_else_zero-selected asin nodes" if st == PROVED else f"pitch node op {g.op(n) if n is not None else None}",
                       None if st == PROVED else {"inputs": {}})]

    def replay(self, w):
        r = self.run()[0]
        return r.status == REFUTED, r.detail


def modular_via_from_matrix(src, dst):
    """dst.from_<src> = dst.from_Matrix o src.to_Matrix, checked modularly: the callee from_Matrix is replaced
    by its CONTRACT (returns an opaque element Y with M(Y) = arg and valid parameters, proved for every rotation
    matrix in trace C07.<dst>.from_Matrix); obligations at the call site: the argument handed over is the
    rotation matrix of the source element, and the callee's result is returned unchanged."""
    gs, gd = SO3_GROUPS[src], SO3_GROUPS[dst]
    cls = type(gd)

    def b(X, Y):
        captured = []
        real = cls.from_Matrix

        def stub(self, arg):
            captured.append(arg)
            return gd.elem(Y)

        cls.from_Matrix = stub
        try:
            out = getattr(gd, "from_" + src)(gs.elem(X))
        finally:
            cls.from_Matrix = real
        assert len(captured) == 1, f"from_Matrix called {len(captured)} times"
        return {"arg": captured[0], "M_src_spec": so3_spec(src)(X), "ret": out.param, "Y": Y}

    return _Trace(f"C07.{dst}.from_{src}", [so3_sort(src)("X"), Free("Y", gd.n_param)], b, [
        Ob("call site: from_Matrix receives the rotation matrix of the source element", "arg", "M_src_spec"),
        Ob("call site: the callee's result is returned unchanged (frame)", "ret", "Y")],
        functions=[getattr(cls, "from_" + src), type(gs).to_Matrix], decide=POL,
        note=f"modular: callee contract of {dst}.from_Matrix (trace C07.{dst}.from_Matrix) assumed at the call site",
        lemmas=[f"callee-contract C07.{dst}.from_Matrix"])


def conv_traces(tier):
    T = []
    for src in REPS:
        for dst in REPS:
            if src == dst:
                continue
            gs, gd = SO3_GROUPS[src], SO3_GROUPS[dst]
            meth = getattr(gd, "from_" + src)
            if (src, dst) == ("Euler", "Mrp"):
                T.append(modular_via_from_matrix(src, dst))
                continue

            def b(X, gs=gs, gd=gd, meth=meth, src=src, dst=dst):
                ex = gs.elem(X)
                out = meth(ex)
                d = {"M_out": out.to_Matrix(), "M_src_spec": so3_spec(src)(X), "M_src": ex.to_Matrix()}
                d.update(validity_outs(dst, out))
                return d

            obs = [Ob(f"same rotation: M(from_{src}(X)) = R_spec(X)", "M_out", "M_src_spec"), Ob("source to_Matrix = spec", "M_src", "M_src_spec")]
            obs += validity_obs(dst)
            T.append(_Trace(f"C07.{dst}.from_{src}", [so3_sort(src)("X")], b, obs,
                            functions=[getattr(type(gd), "from_" + src), type(gd).to_Matrix, type(gs).to_Matrix], decide=POL, budget_s=600))
    # from_Matrix entry points on an orthonormal matrix R(q)
    from cyverif.sorts import DcmOfQuat
    for dst in REPS:
        gd = SO3_GROUPS[dst]

        def bm(M, gd=gd, dst=dst):
            out = gd.from_Matrix(M)
            d = {"M_out": out.to_Matrix(), "M": M}
            d.update(validity_outs(dst, out))
            return d

        T.append(_Trace(f"C07.{dst}.from_Matrix", [DcmOfQuat("M", as_matrix=True)], bm,
                        [Ob("same rotation: M(from_Matrix(R)) = R", "M_out", "M")] + validity_obs(dst),
                        functions=[type(gd).from_Matrix, type(gd).to_Matrix], decide=POL, budget_s=600, lemmas=["L-SO3"]))
    # shadow switch never changes the rotation
    from cyecca.lie.group_so3 import SO3Mrp, SO3MrpLieGroup

    def bs(r):
        e = SO3Mrp.elem(r)
        M0 = spec.R_mrp(r)
        SO3Mrp.shadow_if_necessary(e)
        return {"M_after": e.to_Matrix(), "M_before": M0, "v_norm": ca.dot(e.param, e.param), "v_one": ca.SX.ones(1, 1)}

    T.append(_Trace("C07.Mrp.shadow_if_necessary", [Free("r", 3, scale=2.0)], bs,
                    [Ob("shadow switch keeps the rotation", "M_after", "M_before"), Ob("valid: |r|^2 <= 1 after the switch", "v_norm", "v_one", kind="le")],
                    functions=[SO3MrpLieGroup.shadow_if_necessary], decide=POL,
                    sample_filter=lambda v: sum(x[0] ** 2 for x in v["r"]) > 1e-2))
    return T


def gimbal_band_traces():
    """inside the gimbal band the Euler conversion returns (atan2(+-R12, +-R02), asin(-R20), 0); the rotation it represents
    differs from the input rotation by at most 2 cos(pitch) in every matrix entry, and cos(pitch) < sin(1e-3) < 1e-3 in
    the band (the 'documented 1e-3 rad band tolerance').  Stated for every Euler triple with pitch in (0, pi/2] (north
    cell: first test decided true) resp. [-pi/2, 0) (south cell), which contains the band.  The inequality is discharged by
    a machine-checked proof script (cyverif.absproof): ring identities between the lowered values + small solver steps."""
    from cyverif.absproof import AbstractProof
    from cyverif.sorts import Angle
    from cyecca.lie.group_so3 import SO3EulerB321, SO3EulerLieGroup
    T = []
    for pole, sgn in (("north", 1), ("south", -1)):
        def b(psi, theta, phi):
            e = ca.vertcat(psi, theta, phi)
            M = spec.R_euler_b321(e)
            out = SO3EulerB321.from_Matrix(M)
            D = spec.R_euler_b321(out.param) - M
            c = ca.cos(theta)
            return {"abs_err": ca.fabs(D), "err": D, "bound": 2 * c * ca.SX.ones(3, 3), "roll": out.param[2]}

        def script(trace, low, onodes, sgn=sgn):
            import z3
            R = low.R
            S = trace._sorts()
            ps, th, ph = S["psi"], S["theta"], S["phi"]
            F = lambda p: Frac.of(R, p)
            A = (ps.c * th.s * ph.c + ps.s * ph.s).scale(sgn)      # sgn * R02
            B = (ps.s * th.s * ph.c - ps.c * ph.s).scale(sgn)      # sgn * R12
            rho = low.sqrt(F(R.reduce(A.raw_mul(A) + B.raw_mul(B))))  # the root atom the real code's atan2 introduced
            P = AbstractProof(low, timeout=30)
            for name, v in (("A", A), ("B", B), ("rho", rho), ("st", th.s.scale(sgn)), ("ct", th.c), ("cps", ps.c), ("sps", ps.s), ("cph", ph.c), ("sph", ph.s),
                            ("K", ps.c * ph.c - (ps.s * ph.s).scale(sgn)), ("K2", ps.s * ph.c + (ps.c * ph.s).scale(sgn)),
                            ("R01", ps.c * th.s * ph.s - ps.s * ph.c), ("R11", ps.s * th.s * ph.s + ps.c * ph.c)):
                P.define(name, v)
            # identities of the lowered values (checked by the ring)
            P.relation("rho^2 = A^2 + B^2", lambda n: n.rho * n.rho - n.A * n.A - n.B * n.B)
            P.relation("rho^2 = 1 - ct^2 cph^2", lambda n: n.rho * n.rho - 1 + n.ct * n.ct * n.cph * n.cph)
            P.relation("st^2 + ct^2 = 1", lambda n: n.st * n.st + n.ct * n.ct - 1)
            P.relation("cps^2 + sps^2 = 1", lambda n: n.cps * n.cps + n.sps * n.sps - 1)
            P.relation("cph^2 + sph^2 = 1", lambda n: n.cph * n.cph + n.sph * n.sph - 1)
            P.relation("K^2 + K2^2 = 1", lambda n: n.K * n.K + n.K2 * n.K2 - 1)
            P.relation("R11 - A = (1 - st) K", lambda n: n.R11 - n.A - (1 - n.st) * n.K)
            P.relation("R01 + B = -(1 - st) K2", lambda n: n.R01 + n.B + (1 - n.st) * n.K2)
            # base facts
            P.assume("st > 0", lambda n: n.st > 0, "requires of the cell: sin(pitch) has the pole's sign")
            P.assume("ct >= 0", lambda n: n.ct >= 0, "requires: canonical pitch in [-pi/2, pi/2]")
            P.assume("rho >= 0", lambda n: n.rho >= 0, "principal square root")
            # small steps
            P.step("pitch bounds", ["st > 0", "ct >= 0", "st^2 + ct^2 = 1"], lambda n: z3.And(n.st <= 1, n.ct <= 1, 1 - n.st <= n.ct * n.ct, n.ct * n.ct <= n.ct))
            P.step("|cph| <= 1", ["cph^2 + sph^2 = 1"], lambda n: n.cph * n.cph <= 1)
            P.step("rho bounds", ["rho >= 0", "rho^2 = 1 - ct^2 cph^2", "|cph| <= 1", "pitch bounds", "st > 0", "ct >= 0", "st^2 + ct^2 = 1"],
                   lambda n: z3.And(n.rho > 0, n.rho <= 1, 1 - n.rho <= n.ct * n.ct))
            P.step("|A|, |B| <= rho", ["rho >= 0", "rho^2 = A^2 + B^2"], lambda n: z3.And(n.A <= n.rho, -n.A <= n.rho, n.B <= n.rho, -n.B <= n.rho))
            P.step("|K|, |K2| <= 1", ["K^2 + K2^2 = 1"], lambda n: z3.And(n.K <= 1, -n.K <= 1, n.K2 <= 1, -n.K2 <= 1))
            P.step("|cps|, |sps| <= 1", ["cps^2 + sps^2 = 1"], lambda n: z3.And(n.cps <= 1, -n.cps <= 1, n.sps <= 1, -n.sps <= 1))
            L, Rb = onodes["err"], onodes["bound"]
            ctx = ["pitch bounds", "rho bounds", "|A|, |B| <= rho", "|K|, |K2| <= 1", "|cps|, |sps| <= 1", "st > 0", "ct >= 0", "R11 - A = (1 - st) K", "R01 + B = -(1 - st) K2"]
            c1 = lambda n: n.A / n.rho   # cos, sin of the returned yaw
            s1 = lambda n: n.B / n.rho
            exprs = {(0, 0): lambda n: c1(n) * n.ct - n.cps * n.ct, (0, 1): lambda n: -s1(n) - n.R01, (0, 2): lambda n: c1(n) * n.st * sgn - n.A * sgn,
                     (1, 0): lambda n: s1(n) * n.ct - n.sps * n.ct, (1, 1): lambda n: c1(n) - n.R11, (1, 2): lambda n: s1(n) * n.st * sgn - n.B * sgn,
                     (2, 0): lambda n: 0 * n.ct, (2, 1): lambda n: -n.ct * n.sph, (2, 2): lambda n: n.ct - n.ct * n.cph}
            P.step("|sph| <= 1", ["cph^2 + sph^2 = 1"], lambda n: z3.And(n.sph <= 1, -n.sph <= 1, n.cph <= 1, -n.cph <= 1))
            ctx.append("|sph| <= 1")
            cnt = 0
            for (i, j), fn_ in exprs.items():
                e = P.express(low.value(L[i][j]), fn_, f"entry [{i},{j}]")   # the lowered output entry IS this expression (ring)
                bnd = P.express(low.value(Rb[i][j]), lambda n: 2 * n.ct)
                P.step(f"|E[{i},{j}]| <= 2 ct", ctx, lambda n, e=e, bnd=bnd: z3.And(e <= bnd, -e <= bnd))
                cnt += 1
            return PROVED, f"{cnt} entries: proof script accepted ({len(P.log)} lines: 8 ring identities, 3 base facts, {len(P.log) - 11} solver steps, {P.seconds:.1f}s solver time)", cnt

        def req(rs, sorts, sgn=sgn):
            th = sorts["theta"]
            return [rs.poly(th.s) * sgn > 0, rs.poly(th.c) >= 0]

        T.append(_Trace(f"C07.Euler.from_Matrix.band-{pole}", [Angle("psi"), Angle("theta", 1, 1.4 if sgn > 0 else -1.5707, 1.5707 if sgn > 0 else -1.4, cos_nonneg=True), Angle("phi")], b,
                        [Ob("in-band result: |M(result) - M(input)| <= 2 cos(pitch) in every entry (< 2e-3 inside the 1e-3 rad band)", "abs_err", "bound", kind="script", check=script,
                            falsify=Ob("falsify", "abs_err", "bound", kind="le", tol=1e-9)),
                         Ob("in-band result: roll = 0", "roll", None)],
                        functions=[SO3EulerLieGroup.from_Matrix], decide=cells(series="closed", gimbal=pole), requires_smt=req, smt_timeout=30, budget_s=900,
                        definedness=False, lemmas=["L-TRIG-MONO: |cos(pitch)| < 1e-3 when |pitch -+ pi/2| < 1e-3 (Lean 4 / mathlib: lemmas/TrigMono.lean)"],
                        note=f"{pole} band cell: the gimbal test of from_Matrix decided true; requires sin(pitch) {'>' if sgn > 0 else '<'} 0, cos(pitch) >= 0"))
    return T


class NanFreeJob:
    """floating-point domain safety of the conversions TO Euler angles (the only ones through asin): for every input whose
    entries are doubles in the stated box - in particular every unit quaternion / rotation matrix as it comes out of
    floating-point arithmetic, where -R[2,0] can be 1 + 2^-52 at a gimbal pole - all three returned angles are finite.
    Decided by the forward floating-point analysis of the real graph (a sqrt / asin argument that may leave its domain in
    floating point makes the analysis fail); a failure is turned into a violation only by a concrete input (searched at the
    poles) on which the real function returns NaN."""

    def __init__(self, src):
        from cyecca.lie.group_so3 import SO3EulerLieGroup
        self.src = src
        self.id = f"C07.fp-domain[Euler.from_{src}]"
        self.functions = [getattr(SO3EulerLieGroup, "from_" + src), SO3EulerLieGroup.from_Matrix]
        self.lemmas = ["A-FP standard floating-point model"]
        self.assumptions = ["A-FP: IEEE doubles, round to nearest; libm asin / atan2 return a finite value for every finite in-domain argument"]

    def _fn(self):
        from cyecca.lie.group_so3 import SO3EulerB321
        n = {"Quat": 4, "Mrp": 3, "Dcm": 9, "Matrix": 9}[self.src]
        X = ca.SX.sym("X", n)
        if self.src == "Matrix":
            out = SO3EulerB321.from_Matrix(ca.reshape(X, 3, 3)).param
        else:
            out = getattr(SO3EulerB321, "from_" + self.src)(SO3_GROUPS[self.src].elem(X)).param
        return X, out, n

    def _pole_inputs(self, rng, count=400):
        """inputs at the gimbal poles as floating-point arithmetic produces them"""
        import math
        from cyecca.lie.group_so3 import SO3EulerB321
        e = ca.SX.sym("e", 3)
        if self.src == "Matrix":
            conv = ca.Function("c", [e], [ca.vec(SO3EulerB321.elem(e).to_Matrix())])
        else:
            conv = ca.Function("c", [e], [getattr(SO3_GROUPS[self.src], "from_Euler")(SO3EulerB321.elem(e)).param])
        for k in range(count):
            th = (math.pi / 2) * (1 if k % 2 else -1)
            yield [float(v) for v in ca.DM(conv([rng.uniform(-3.1, 3.1), th, rng.uniform(-3.1, 3.1)])).full().ravel()]

    def run(self, seed=0):
        import math
        import random
        import time as _t
        from cyverif import fperr, ir
        from cyverif.interval import IV
        t0 = _t.time()
        name = f"Euler.from_{self.src}: no NaN / inf for any input with entries in the box (incl. the gimbal poles as computed in doubles)"
        try:
            X, out, n = self._fn()
            g, on, n_instr = ir.extract({"X": X}, {"out": out})
            roots = [row[0] for row in on["out"] if row[0] is not None]
            r = 1.01 if self.src in ("Dcm", "Matrix") else 1.0
            env = {("X", i, 0): IV(-r, r) for i in range(n)}
            memo = fperr.analyse(g, roots, env, {}, None, None, fperr.use_guards(g, roots))
            ok = all(memo[k][0].finite() and math.isfinite(memo[k][1]) for k in roots)
            if ok:
                return [Result(self.id, name, PROVED, "FPERR", "", _t.time() - t0, f"every asin / sqrt argument stays in its domain and every divisor away from 0 in floating point on the box |x_i| <= {r} ({n_instr} instructions)", None, len(roots))]
            # not provable: look for a concrete failing input at the poles
            f = ca.Function("f", [X], [out])
            rng = random.Random(seed + 5)
            for x in self._pole_inputs(rng):
                y = [float(v) for v in ca.DM(f(x)).full().ravel()]
                if any(math.isnan(v) or math.isinf(v) for v in y):
                    return [Result(self.id, name, REFUTED, "FPERR+EVAL", "", _t.time() - t0,
                                   f"the analysis cannot keep an asin / sqrt argument inside its domain, and the real function returns {y} for a pole input computed in doubles",
                                   {"inputs": {"X": [[v] for v in x]}, "outputs": y}, len(roots))]
            return [Result(self.id, name, UNDECIDED, "FPERR", "", _t.time() - t0, "an asin / sqrt argument may leave its domain in floating point (no failing input found among 400 pole inputs)")]
        except Exception as e:
            import traceback
            return [Result(self.id, name, ERROR, "FPERR", "", _t.time() - t0, f"{type(e).__name__}: {e}\n{traceback.format_exc(limit=4)}")]

    def replay(self, w):
        import math
        X, out, n = self._fn()
        y = [float(v) for v in ca.DM(ca.Function("f", [X], [out])([row[0] for row in w["inputs"]["X"]])).full().ravel()]
        bad = any(math.isnan(v) or math.isinf(v) for v in y)
        return bad, f"outputs {y}"


def traces(tier="quick"):
    return conv_traces(tier) + gimbal_band_traces()


def jobs(tier="quick"):
    from cyecca.lie.group_so3 import SO3EulerB321, SO3EulerLieGroup
    J = []
    for src in ("Quat", "Mrp", "Dcm"):
        gs = SO3_GROUPS[src]
        J.append(PitchIsAsin(f"C07.Euler.from_{src}.pitch", src, lambda X, gs=gs, src=src: getattr(SO3EulerB321, "from_" + src)(gs.elem(X)),
                             [SO3EulerLieGroup.from_Matrix]))
    for src in ("Quat", "Mrp", "Dcm", "Matrix"):
        J.append(NanFreeJob(src))
    return J


def canaries(tier="quick"):
    from cyecca.lie.group_so3 import SO3Quat, SO3Mrp

    def b(X):
        out = SO3Quat.from_Mrp(SO3Mrp.elem(X))
        return {"M_out": out.to_Matrix(), "M_T": spec.R_mrp(X).T}

    return [_Trace("C07.canary.Quat.from_Mrp-transposed", [Free("X", 3, scale=0.9)], b, [Ob("M(from_Mrp(r)) = R(r)^T [false]", "M_out", "M_T")])]


MIN_OBLIGATIONS = {"quick": 50, "thorough": 50}
TRUSTED = ["A-GRAPH, A-REAL, own ring engine (see C01)", "z3 4.x / cvc5 (QF_NRA) for the |r|^2 <= 1 and divisor-nonzero obligations and for the steps of the proof script (cyverif.absproof)"]
ASSUMPTIONS = [
    "lemma L-SO3 (machine-checked in Lean 4 / mathlib, lemmas/SO3Surj.lean + lemmas/SO3Cover.lean): every rotation matrix is R(q) for a unit quaternion q of either sign (sort of the from_Matrix inputs)",
    "exactness claim: requires Euler pitch outside the +-1e-3 rad gimbal band; inside the band the tolerance clause is the separate obligation |M(result) - M(input)| <= 2 cos(pitch) entrywise "
    "(C07.Euler.from_Matrix.band-north/south, proved for canonical input triples with pitch in (0, pi/2] / [-pi/2, 0) by a machine-checked proof script); cos(pitch) < 1e-3 in the band is lemma L-TRIG-MONO (machine-checked in Lean 4 / mathlib, lemmas/TrigMono.lean)",
    "requires: quaternion -> MRP away from q0 = -1 (divisor 1 + q0), see the unchecked definedness assumptions in coverage",
]
