"""C02 — the group exponential is the matrix exponential of the algebra element.

Phi(y) := to_Matrix(exp(y)).  Obligations per algebra/group pair:
  init : Phi(0) = I                                  (exact evaluation through the Taylor branch at y = 0)
  flow : sum_i y_i dPhi/dy_i = hat(y) Phi(y)         (closed-form cell, all y, all angles incl. beyond pi)
         => t -> Phi(t y) solves Phi' = hat(y) Phi, Phi(0) = I, hence Phi(t y) = expm(t hat(y))   [lemma L-ODE]
  neg  : Phi(-y) Phi(y) = I          comp : Phi((a+b) n) = Phi(a n) Phi(b n)   (direct, independent of L-ODE)
The Taylor cell (theta^2 < 1e-3) is covered by C06's truncation + rounding bounds.
"""
from __future__ import annotations

import casadi as ca

from cyverif.harness import Ob, cells
from cyverif.harness import Trace as _Trace
from cyverif.sorts import Angle, Composite, Const, Free, RotVec, Sort
from cyverif.ring import Frac
from . import spec
from .groups import alg_sort, make_groups, product_info

CLOSED = cells(series="closed", gimbal="outside")
TAYLOR = cells(series="taylor", gimbal="outside")


def fns_of(info):
    out = [type(info.group).exp, type(info.group).to_Matrix, type(info.group.algebra).to_Matrix]
    if info.so3:
        from .groups import SO3_GROUPS
        out.append(type(SO3_GROUPS[info.so3]).exp)
    return out


def exp_traces(info, G, tier):
    grp, g, n, na = info.group, info.group.algebra, info.name, info.n_alg
    N = grp.matrix_shape[0]
    fns = fns_of(info)

    def b_flow(y):
        Phi = g.elem(y).exp(grp).to_Matrix()
        D = ca.reshape(ca.jtimes(ca.reshape(Phi, N * N, 1), y, y), N, N)
        return {"DPhi": D, "hatPhi": info.alg_hat(y) @ Phi, "hat": g.elem(y).to_Matrix(), "hat_spec": info.alg_hat(y)}

    def b_neg(y):
        return {"PhiNegPhi": g.elem(-y).exp(grp).to_Matrix() @ g.elem(y).exp(grp).to_Matrix(), "I": spec.I(N)}

    def b_init(y):
        return {"Phi0": g.elem(y).exp(grp).to_Matrix(), "I": spec.I(N)}

    heavy = info.kind == "se23" and info.so3 != "Quat"  # exp goes through from_Matrix: 12 x 12 correlated Shepperd/shadow paths
    neg = [] if (heavy and tier != "thorough") else [
        _Trace(f"C02.{n}.neg", [alg_sort(info, "y", G)], b_neg, [Ob("neg: M(exp(-y)) M(exp(y)) = I", "PhiNegPhi", "I")],
               functions=fns, decide=CLOSED, budget_s=900, max_paths=256)]
    return neg + [
        _Trace(f"C02.{n}.flow", [alg_sort(info, "y", G)], b_flow, [
            Ob("flow: d/dt M(exp(t y)) = hat(y) M(exp(t y)) at t=1 for all y", "DPhi", "hatPhi"),
            Ob("algebra to_Matrix = hat spec", "hat", "hat_spec"),
        ], functions=fns, decide=CLOSED, lemmas=["L-ODE"], budget_s=600),
        _Trace(f"C02.{n}.init", [Const("y", [[0]] * na)], b_init, [Ob("init: M(exp(0)) = I", "Phi0", "I")], functions=fns, decide=TAYLOR),
    ]


class UnitVec(Sort):
    shape = (3, 1)

    def __init__(self, name):
        self.name = name

    def bind(self, low):
        R = low.R
        n = [R.gen(f"{self.name}{i}") for i in range(3)]
        R.add_relation(R.index[f"{self.name}2"], 2, R.const(1) - n[0] * n[0] - n[1] * n[1])
        return {(self.name, i, 0): Frac.of(R, n[i]) for i in range(3)}

    def sample(self, rng):
        import math
        v = [rng.gauss(0, 1) for _ in range(3)]
        m = math.sqrt(sum(x * x for x in v))
        return [[x / m] for x in v]


def comp_traces(info, tier):
    """exp((a+b) x) = exp(a x) exp(b x) along a unit axis n, angles a, b as independent base-angle atoms"""
    grp, g, n = info.group, info.group.algebra, info.name
    k = 4 if info.so3 == "Mrp" else 2
    N = grp.matrix_shape[0]
    ntr = info.n_alg - 3

    def b(axis, a, b_, v):
        def el(t):
            return g.elem(ca.vertcat(t * v, t * axis) if ntr else t * axis)
        A, B, AB = el(a).exp(grp), el(b_).exp(grp), el(a + b_).exp(grp)
        return {"M_AB": AB.to_Matrix(), "MAMB": A.to_Matrix() @ B.to_Matrix()}

    ins = [UnitVec("axis"), Angle("a", k, 0.3, 1.4), Angle("b_", k, 0.3, 1.4), Free("v", max(ntr, 1))]
    return [_Trace(f"C02.{n}.comp", ins, b, [Ob("comp: M(exp((a+b)x)) = M(exp(a x)) M(exp(b x))", "M_AB", "MAMB")],
                   functions=fns_of(info), decide=CLOSED, budget_s=600, max_paths=512)]


QUICK = ["SO2", "SE2", "R2", "R3", "SO3Quat", "SO3Mrp", "SO3Dcm", "SO3Euler", "SE3Quat", "SE3Mrp", "SE23Quat", "SE23Mrp"]
THOROUGH = ["SE3Dcm", "SE23Dcm", "SE3Euler", "SE23Euler"]
COMP_QUICK = ["SO3Quat", "SO3Dcm", "SE3Quat"]
COMP_THOROUGH = ["SO3Mrp", "SE3Mrp", "SE23Quat"]


def traces(tier="quick"):
    G = make_groups()
    out = []
    for n in QUICK + (THOROUGH if tier == "thorough" else []):
        out += exp_traces(G[n], G, tier)
    for n in COMP_QUICK + (COMP_THOROUGH if tier == "thorough" else []):
        out += comp_traces(G[n], tier)
    out += exp_traces(product_info(["SO3Mrp", "R3"], G), G, tier)
    if tier == "thorough":
        out += exp_traces(product_info(["SE2", "SO3Quat"], G), G, tier)
    return out


def jobs(tier="quick"):
    """the Taylor cell of every series coefficient: rigorous real-arithmetic bound |code - exact| <= 1e-11"""
    from .taylor_cell import jobs_for
    return jobs_for(['SO3Quat.exp', 'SO3Mrp.exp', 'SO3Dcm.exp', 'SE3Quat.exp', 'SE3Mrp.exp', 'SE23Quat.exp', 'SE23Mrp.exp', 'SE2.exp'], "C02")


def canaries(tier="quick"):
    G = make_groups()
    info = G["SO3Quat"]
    grp, g = info.group, info.group.algebra

    def b(y):
        Phi = g.elem(y).exp(grp).to_Matrix()
        D = ca.reshape(ca.jtimes(ca.reshape(Phi, 9, 1), y, y), 3, 3)
        return {"DPhi": D, "wrong": Phi @ info.alg_hat(2 * y)}

    return [_Trace("C02.canary.SO3Quat.flow-double-rate", [alg_sort(info, "y", G)], b, [Ob("DPhi = Phi hat(2y) [false]", "DPhi", "wrong")], decide=CLOSED)]


MIN_OBLIGATIONS = {"quick": 50, "thorough": 70}
TRUSTED = [
    "A-GRAPH, A-REAL, own ring engine (see C01)",
    "CasADi forward AD (ca.jtimes) forms the ray derivative; its result is part of the extracted graph and is replayed numerically",
]
ASSUMPTIONS = [
    "lemma L-ODE: Phi' = A Phi, Phi(0) = I has the unique solution expm(tA): machine-checked in Lean 4 / mathlib (lemmas/LinearODE.lean, `./check lemmas`); the chain-rule step from the Euler-operator identity on the closed-form cell to Phi' = A Phi, and the extension to every ray by density, are machine-checked too (lemmas/FlowOfEuler.lean, flow_of_euler); continuity of the exact function and its differentiability on the closed-form cell are by inspection (composition of smooth atoms)",
    "flow/neg/comp are proved on the closed-form cell of every series coefficient (theta^2 >= 1e-3, all theta > 0 incl. beyond pi and both MRP shadow branches); on the Taylor cell the real-arithmetic deviation from the exact function is bounded rigorously (<= 1e-11, taylor-cell obligations; translations in [-1, 1])",
    "requires: Euler target outside the gimbal band; MRP results away from the shadow-switch boundary are covered on both branches",
]
