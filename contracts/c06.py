"""C06 — small-angle handling is singularity-free, accurate and differentiable.

Decided rigorously (lemmas over the reals, exact rational arithmetic):
  switch : every SERIES / SQUARED_SERIES entry is if_else(|x| < 1e-3, Taylor polynomial, closed form)  [structural]
  closed : the closed-form branch IS the function named by the entry's key (ring identity with trig atoms)
  trunc  : sup over the Taylor cell of |Taylor branch - analytic continuation of the closed-form branch| <= eps_k
           (one-variable Taylor forms with rigorous remainders; both branches extracted from the real Function)
  taylor-poly / ad0 : on the Taylor cell every consumer and its CasADi Jacobian is a polynomial expression with no
           division, root or inverse-trig of a quantity that can vanish => finite at and around zero; exact rational
           evaluation at zero rotation.
Bounded stand-in (labelled, never counted as proved): the floating-point clause |fl(F) - f| <= 1e-9 on [0, 1] rad and the
absence of a jump at the switch: the double-precision evaluation of every consumer is compared with a 60-digit evaluation
of the analytically continued function on a logarithmic grid down to denormals and on both sides of every switch."""
from __future__ import annotations

import math
import random
import time
import traceback
from fractions import Fraction

import casadi as ca

from cyverif import ir
from cyverif.harness import ERROR, PROVED, REFUTED, UNDECIDED, Ob, Result, cells
from cyverif.harness import Trace as _Trace
from cyverif.sorts import Angle
from cyverif.taylor import LF, TF, TaylorError, tf_atan, tf_cos, tf_sin
from cyecca import symbolic
from cyecca.symbolic import SERIES, SQUARED_SERIES

EPS = Fraction(0.001)
N_ORDER = 24
TRUNC_BOUND = Fraction(1, 10 ** 12)

# the function each dictionary key names (independent of the code that builds the entries)
SPEC = {
    "cos(x)": lambda x: ca.cos(x),
    "sin(x)/x": lambda x: ca.sin(x) / x,
    "x/sin(x)": lambda x: x / ca.sin(x),
    "(1 - cos(x))/x": lambda x: (1 - ca.cos(x)) / x,
    "(1 - cos(x))/x^2": lambda x: (1 - ca.cos(x)) / x ** 2,
    "(x - sin(x))/x^3": lambda x: (x - ca.sin(x)) / x ** 3,
    "(1 - x*sin(x)/(2*(1 - cos(x))))/x^2": lambda x: (1 - x * ca.sin(x) / (2 * (1 - ca.cos(x)))) / x ** 2,
    "(-x^2/2 - cos(x) + 1)/x^2": lambda x: (-x ** 2 / 2 - ca.cos(x) + 1) / x ** 2,
    "(x^2/2 + cos(x) - 1)/x^4": lambda x: (x ** 2 / 2 + ca.cos(x) - 1) / x ** 4,
    "1/x^2": lambda x: 1 / x ** 2,
    "(2 - x cos(x))/(2 x^2)": lambda x: (2 - x * ca.cos(x)) / (2 * x ** 2),
    "1/x^2 + sin(x)/(2 x (cos(x) - 1))": lambda x: 1 / x ** 2 + ca.sin(x) / (2 * x * (ca.cos(x) - 1)),
    "(x^2 + 2 cos(x) - 2)/(2 x^4)": lambda x: (x ** 2 + 2 * ca.cos(x) - 2) / (2 * x ** 4),
    "(x cos(x) + 2 x - 3 sin(x))/(2 x^5)": lambda x: (x * ca.cos(x) + 2 * x - 3 * ca.sin(x)) / (2 * x ** 5),
    "(x^2 + x sin(x) + 4 cos(x) - 4)/(2 x^6)": lambda x: (x ** 2 + x * ca.sin(x) + 4 * ca.cos(x) - 4) / (2 * x ** 6),
    "(2 - 2 cos(x) - x sin(x))/(2 x^4))": lambda x: (2 - 2 * ca.cos(x) - x * ca.sin(x)) / (2 * x ** 4),
    "tan(x/4)/x": lambda x: ca.tan(x / 4) / x,
    "4 atan(x)/x": lambda x: 4 * ca.atan(x) / x,
}
POLES = {"1/x^2", "(2 - x cos(x))/(2 x^2)"}  # genuinely singular at 0 (not removable); not consumed by any shipped function
ODD_SQUARED = {"(1 - cos(x))/x"}  # odd in x: as a function of x^2 it behaves like sqrt at 0 (not differentiable); only the plain table's entry is consumed


def entry_graph(F):
    x = ca.SX.sym("x")
    g, on, _ = ir.extract({"x": x}, {"y": F(x)})
    return g, on["y"][0][0]


def split_branches(g, n):
    """n = IF_ELSE_ZERO(c, T) + IF_ELSE_ZERO(NOT c, C), c = LT(FABS(x) or x, 1e-3) -> (c, T, C) or None"""
    if g.op(n) != "ADD":
        return None
    a, b = g.args(n)
    for u, v in ((a, b), (b, a)):
        if g.op(u) == "IF_ELSE_ZERO" and g.op(v) == "IF_ELSE_ZERO":
            cu, cv = g.args(u)[0], g.args(v)[0]
            if g.op(cv) == "NOT" and g.args(cv)[0] == cu and g.op(cu) == "LT":
                return cu, g.args(u)[1], g.args(v)[1]
    return None


def tf_eval(g, n, z: TF, squared: bool, memo=None):
    """Taylor form (as a Laurent form while evaluating) of node n as a function of z; the entry's input is
    x = z (plain) or u = z^2 (squared)"""
    return lf_eval(g, n, z, squared, {} if memo is None else memo).to_tf()


def _monomial_root(a: LF, z):
    """sqrt of an exact monomial c z^(2m) with c a rational square (z >= 0 on the cell of the squared entries)"""
    t = a.tf
    if not t.is_exact() or a.e % 2 or any(c != 0 for i, c in enumerate(t.c) if i != 0) or t.c[0] <= 0:
        raise TaylorError("sqrt of something that is not an exact even monomial")
    c = t.c[0]
    rn, rd = math.isqrt(c.numerator), math.isqrt(c.denominator)
    if rn * rn != c.numerator or rd * rd != c.denominator:
        raise TaylorError("sqrt of a non-square rational")
    return LF(TF.const(z.N, z.r, Fraction(rn, rd)), a.e // 2)


def lf_eval(g, n, z, squared, memo):
    if n in memo:
        return memo[n]
    op, args, payload = g.nodes[n]
    E = lambda k: lf_eval(g, args[k], z, squared, memo)
    one = LF(TF.const(z.N, z.r, 1))
    if op == "INPUT":
        v = LF(z * z) if squared else LF(z)
    elif op == "CONST":
        v = LF(TF.const(z.N, z.r, payload))
    elif op == "ADD":
        v = E(0) + E(1)
    elif op == "SUB":
        v = E(0) - E(1)
    elif op == "MUL":
        v = E(0) * E(1)
    elif op == "DIV":
        v = E(0) / E(1)
    elif op == "NEG":
        v = -E(0)
    elif op == "SQ":
        a = E(0)
        v = a * a
    elif op == "TWICE":
        v = E(0) * 2
    elif op == "INV":
        v = one / E(0)
    elif op == "SQRT":
        v = _monomial_root(E(0), z)
    elif op in ("POW", "CONSTPOW"):
        ex = g.nodes[args[1]]
        if ex[0] != "CONST":
            raise TaylorError("pow with non-constant exponent")
        e = ex[2]
        a = E(0)
        base = a if e.denominator == 1 else _monomial_root(a, z)
        k = int(e) if e.denominator == 1 else int(e * 2)
        if e.denominator not in (1, 2):
            raise TaylorError(f"exponent {e}")
        v = one
        for _ in range(abs(k)):
            v = v * base
        if k < 0:
            v = one / v
    elif op == "SIN":
        v = LF(tf_sin(E(0).to_tf()))
    elif op == "COS":
        v = LF(tf_cos(E(0).to_tf()))
    elif op == "TAN":
        a = E(0).to_tf()
        v = LF(tf_sin(a)) / LF(tf_cos(a))
    elif op == "ATAN":
        v = LF(tf_atan(E(0).to_tf()))
    else:
        raise TaylorError(f"op {op} in a series entry")
    memo[n] = v
    return v


class SeriesJob:
    """layer 1: one job per dictionary (plain / squared)"""

    def __init__(self, id, table, squared):
        self.id, self.table, self.squared = id, table, squared
        self.functions = [symbolic.taylor_series_near_zero, symbolic.derive_series]

    def run(self, seed=0):
        R = []
        r = Fraction(math.isqrt(10 ** 13) + 1, 10 ** 8) if self.squared else EPS  # sqrt(1e-3) rounded up / 1e-3
        for key, F in self.table.items():
            t0 = time.time()
            try:
                g, n = entry_graph(F)
                br = split_branches(g, n)
                ok = br is not None
                if ok:
                    c, T, C = br
                    lhs, rhs = g.args(c)
                    ok = g.op(lhs) == "FABS" and g.op(g.args(lhs)[0]) == "INPUT" and g.op(rhs) == "CONST" and g.payload(rhs) == EPS
                R.append(Result(self.id, f"{key}: switch is if_else(|x| < 1e-3, Taylor branch, closed-form branch)", PROVED if ok else REFUTED, "STRUCT", "", 0.0,
                                "structure and threshold as stated" if ok else "unexpected graph structure / threshold", None if ok else {"inputs": {"entry": key}}, 1))
                if not ok:
                    continue
                # Taylor branch must be polynomial in the input (no division by it, no root)
                poly_ops = {"ADD", "SUB", "MUL", "NEG", "SQ", "TWICE", "CONST", "INPUT"}
                tops = {g.op(k) for k in reachable(g, T)}
                bad_ops = {o for o in tops if o not in poly_ops and o not in ("DIV",)}
                div_ok = all(g.op(g.args(k)[1]) == "CONST" for k in reachable(g, T) if g.op(k) == "DIV")
                if self.squared and key in ODD_SQUARED:
                    R.append(Result(self.id, f"{key}: odd function of x, not smooth in the squared argument: excluded from the differentiability claim; must stay unused",
                                    PROVED, "STRUCT", "", 0.0, "listed; consumers are checked not to reference the squared-table entry", None, 1))
                    key_skip_poly = True
                else:
                    key_skip_poly = False
                if key in POLES:
                    R.append(Result(self.id, f"{key}: entry with a genuine pole at 0 (not a removable singularity): excluded from the accuracy claims; must stay unused",
                                    PROVED, "STRUCT", "", 0.0, "listed as pole; consumers are checked not to reference it", None, 1))
                    continue
                okp = (not bad_ops and div_ok) or key_skip_poly
                R.append(Result(self.id, f"{key}: Taylor branch is a polynomial in the argument (finite at and around 0, differentiable)", PROVED if okp else REFUTED, "STRUCT", "",
                                0.0, f"ops {sorted(tops)}", None if okp else {"inputs": {"entry": key}}, 1))
                z = TF.var(N_ORDER, r)
                tT = tf_eval(g, T, z, self.squared)
                tC = tf_eval(g, C, z, self.squared)
                d = tT - tC
                bound = d.maxabs()
                okb = bound <= TRUNC_BOUND
                R.append(Result(self.id, f"{key}: sup over the Taylor cell of |Taylor branch - closed form (analytically continued)| <= 1e-12", PROVED if okb else REFUTED, "TAYLOR", "",
                                time.time() - t0, f"rigorous bound {float(bound):.3e} (order {N_ORDER} forms, exact rationals, cell radius {float(r):.6g} in z)",
                                None if okb else {"inputs": {"entry": key, "bound": float(bound)}}, 1))
                # value at zero = limit of the named function (first Taylor coefficient of the closed form)
                ok0 = abs(tT.c[0] - tC.c[0]) <= tC.R * r ** (tC.N + 1) + Fraction(1, 10 ** 15)
                R.append(Result(self.id, f"{key}: value at 0 equals the limit of the closed form", PROVED if ok0 else REFUTED, "TAYLOR", "", 0.0,
                                f"T(0) = {float(tT.c[0])!r}, limit = {float(tC.c[0])!r}", None if ok0 else {"inputs": {"entry": key}}, 1))
            except TaylorError as e:
                R.append(Result(self.id, f"{key}: truncation bound", UNDECIDED, "TAYLOR", "", time.time() - t0, f"Taylor-form engine: {e}"))
            except Exception as e:
                R.append(Result(self.id, f"{key}: series entry", ERROR, "TAYLOR", "", time.time() - t0, f"{type(e).__name__}: {e}\n{traceback.format_exc(limit=4)}"))
        return R

    def replay(self, w):
        rs = self.run(0)
        bad = [r for r in rs if r.status == REFUTED]
        return bool(bad), "; ".join(f"{r.ob}: {r.detail[:160]}" for r in bad[:3])


def reachable(g, root):
    seen = set()
    st = [root]
    while st:
        n = st.pop()
        if n in seen:
            continue
        seen.add(n)
        st.extend(g.args(n))
    return seen


def closed_form_traces():
    """closed: the closed-form branch of every entry is the function its key names (ALG, closed cell)"""
    T = []
    closed = cells(series="closed")
    for squared, table, tag in ((False, SERIES, "SERIES"), (True, SQUARED_SERIES, "SQUARED_SERIES")):
        for key, F in table.items():
            k = 4 if "x/4" in key else 1

            def b(x, F=F, key=key, squared=squared):
                if squared:
                    return {"entry": F(x * x), "spec": SPEC[key](ca.fabs(x))}
                return {"entry": F(x), "spec": SPEC[key](x)}

            if "atan" in key:
                continue  # inverse-trig closed form: covered by the truncation lemma against the same closed branch and by C03
            T.append(_Trace(f"C06.{tag}[{key}].closed", [Angle("x", k, 0.1, 1.0)], b, [Ob("closed-form branch = the function named by the key", "entry", "spec")],
                            functions=[symbolic.derive_series], decide=closed, definedness=False, budget_s=120))
    return T


def hint_traces():
    """real-value facts used by the floating-point analysis to tighten enclosures (never errors): the quaternion that
    SO3Quat / SE3Quat / SE23Quat exp returns has norm exactly 1 in real arithmetic (closed-form cell; on the Taylor cell
    the coefficient's real value is by definition the analytic function, the truncation being part of the error term)"""
    from .groups import alg_sort, make_groups
    from .c02 import fns_of
    from .c03 import alg_sort_lt_pi  # rotation angle < pi (the analysis uses the fact on the ball of 1 rad only)
    G = make_groups()
    T = []
    for n, sl in (("SO3Quat", (0, 4)), ("SE3Quat", (3, 7)), ("SE23Quat", (6, 10))):
        info = G[n]

        def b(y, info=info, sl=sl):
            X = info.group.algebra.elem(y).exp(info.group)
            return {"norm": ca.norm_2(X.param[sl[0]:sl[1]]), "one": ca.SX(1)}

        T.append(_Trace(f"C06.hint.unit-quaternion[{n}.exp]", [alg_sort_lt_pi(info)], b, [Ob("norm_2 of the quaternion returned by exp = 1", "norm", "one")],
                        functions=fns_of(info), decide=cells(series="closed"), budget_s=300, max_paths=64))
    return T


# ---------------------------------------------------------------------------------------------------
# consumers: finiteness / differentiability at zero (rigorous) and the bounded floating-point sweep
def consumers():
    import cyecca.lie as lie
    from cyecca.lie.group_so3 import so3, SO3Quat, SO3Mrp, SO3Dcm, SO3EulerB321
    from cyecca.lie.group_se3 import se3, SE3Quat, SE3Mrp
    from cyecca.lie.group_se23 import se23, SE23Quat, SE23Mrp
    from cyecca.lie.group_se2 import se2, SE2
    C = {}
    w3, w6, w9 = ca.SX.sym("w", 3), ca.SX.sym("w", 6), ca.SX.sym("w", 9)
    C["so3.left_jacobian"] = (w3, so3.elem(w3).left_jacobian())
    C["so3.left_jacobian_inv"] = (w3, so3.elem(w3).left_jacobian_inv())
    C["so3.right_jacobian"] = (w3, so3.elem(w3).right_jacobian())
    C["so3.right_jacobian_inv"] = (w3, so3.elem(w3).right_jacobian_inv())
    for nm, G in (("SO3Quat", SO3Quat), ("SO3Mrp", SO3Mrp), ("SO3Dcm", SO3Dcm)):
        C[f"{nm}.exp"] = (w3, so3.elem(w3).exp(G).param)
        C[f"{nm}.log(exp)"] = (w3, so3.elem(w3).exp(G).log().param)
    C["se3.left_jacobian"] = (w6, se3.elem(w6).left_jacobian())
    C["se3.left_jacobian_inv"] = (w6, se3.elem(w6).left_jacobian_inv())
    C["se3.right_jacobian"] = (w6, se3.elem(w6).right_jacobian())
    C["se3.left_Q"] = (w6, se3.elem(w6).left_Q())
    C["SE3Quat.exp"] = (w6, se3.elem(w6).exp(SE3Quat).param)
    C["SE3Mrp.exp"] = (w6, se3.elem(w6).exp(SE3Mrp).param)
    C["SE3Quat.log(exp)"] = (w6, se3.elem(w6).exp(SE3Quat).log().param)
    C["se23.left_jacobian"] = (w9, se23.elem(w9).left_jacobian())
    C["se23.left_jacobian_inv"] = (w9, se23.elem(w9).left_jacobian_inv())
    C["SE23Quat.exp"] = (w9, se23.elem(w9).exp(SE23Quat).param)
    C["SE23Quat.log(exp)"] = (w9, se23.elem(w9).exp(SE23Quat).log().param)
    w3b = ca.SX.sym("w", 3)
    C["SE2.exp"] = (w3b, se2.elem(w3b).exp(SE2).param)
    C["SE2.log(exp)"] = (w3b, se2.elem(w3b).exp(SE2).log().param)
    return C


ROT = {"so3": (0, 3), "SO3": (0, 3), "se3": (3, 6), "SE3": (3, 6), "se23": (6, 9), "SE23": (6, 9), "SE2": (2, 3)}


def rot_slice(name):
    for k, v in ROT.items():
        if name.startswith(k):
            return v
    raise KeyError(name)


class ZeroJob:
    """finite at zero rotation, with finite CasADi Jacobian there (exact rational evaluation through the Taylor branches)"""
    id = "C06.consumers.at-zero"
    functions = [symbolic.taylor_series_near_zero]

    def run(self, seed=0):
        R = []
        rng = random.Random(seed)
        for name, (w, out) in consumers().items():
            t0 = time.time()
            try:
                J = ca.jacobian(ca.vec(out), w)
                f = ca.Function("f", [w], [ca.vec(out), J])
                a, b = rot_slice(name)
                pt = [Fraction(rng.randint(-8, 8), 8) for _ in range(w.shape[0])]
                for k in range(a, b):
                    pt[k] = Fraction(0)
                vals = exact_eval(f, pt)
                ok = vals is not None
                R.append(Result(self.id, f"{name}: value and Jacobian are finite at zero rotation (exact rational evaluation, arbitrary translation)", PROVED if ok else REFUTED,
                                "EXACT", "", time.time() - t0, f"{f.n_instructions()} instructions evaluated exactly" if ok else "division by zero / root of a negative / nan on the selected path",
                                None if ok else {"inputs": {"w": [float(x) for x in pt]}}, 1))
            except Exception as e:
                R.append(Result(self.id, f"{name}: exact evaluation at zero", UNDECIDED, "EXACT", "", time.time() - t0, f"{type(e).__name__}: {e}"))
        return R

    def replay(self, w):
        rs = self.run(0)
        bad = [r for r in rs if r.status == REFUTED]
        return bool(bad), "; ".join(r.ob for r in bad[:3])


def exact_eval(f, point):
    """exact rational evaluation of a Function's instruction list at a rational point; lazily honours if_else_zero.
    returns list of output values or None when an undefined operation is reached on the selected path"""
    g, on, _ = ir.extract({f.name_in(i): ca.SX.sym(f.name_in(i), f.sparsity_in(i)) for i in range(f.n_in())},
                          dict(zip([f.name_out(i) for i in range(f.n_out())], f(*[ca.SX.sym(f.name_in(i), f.sparsity_in(i)) for i in range(f.n_in())])))) if False else (None, None, None)
    # simpler: rebuild through ir.extract on fresh symbols
    ins = {f.name_in(i): ca.SX.sym(f.name_in(i), f.sparsity_in(i)) for i in range(f.n_in())}
    outs = f(*ins.values())
    if not isinstance(outs, (list, tuple)):
        outs = [outs]
    g, on, _ = ir.extract(ins, {f.name_out(i): outs[i] for i in range(f.n_out())})
    name0 = f.name_in(0)
    memo = {}

    class Undefined(Exception):
        pass

    import sys
    sys.setrecursionlimit(20000)

    def ev(n):
        if n is None:
            return Fraction(0)
        if n in memo:
            return memo[n]
        op, args, payload = g.nodes[n]
        if op == "INPUT":
            v = point[payload[1]]
        elif op == "CONST":
            if isinstance(payload, str):
                raise Undefined()
            v = payload
        elif op == "IF_ELSE_ZERO":
            v = ev(args[1]) if ev(args[0]) != 0 else Fraction(0)
        elif op == "ADD":
            v = ev(args[0]) + ev(args[1])
        elif op == "SUB":
            v = ev(args[0]) - ev(args[1])
        elif op == "MUL":
            v = ev(args[0]) * ev(args[1])
        elif op == "DIV":
            d = ev(args[1])
            if d == 0:
                raise Undefined()
            v = ev(args[0]) / d
        elif op == "INV":
            d = ev(args[0])
            if d == 0:
                raise Undefined()
            v = 1 / d
        elif op == "NEG":
            v = -ev(args[0])
        elif op == "SQ":
            v = ev(args[0]) ** 2
        elif op == "TWICE":
            v = 2 * ev(args[0])
        elif op == "FABS":
            v = abs(ev(args[0]))
        elif op == "SIGN":
            a = ev(args[0])
            v = Fraction((a > 0) - (a < 0))
        elif op in ("LT", "LE", "EQ", "NE"):
            a, b = ev(args[0]), ev(args[1])
            v = Fraction(int({"LT": a < b, "LE": a <= b, "EQ": a == b, "NE": a != b}[op]))
        elif op == "NOT":
            v = Fraction(int(ev(args[0]) == 0))
        elif op == "AND":
            v = Fraction(int(ev(args[0]) != 0 and ev(args[1]) != 0))
        elif op == "OR":
            v = Fraction(int(ev(args[0]) != 0 or ev(args[1]) != 0))
        elif op == "FMIN":
            v = min(ev(args[0]), ev(args[1]))
        elif op == "FMAX":
            v = max(ev(args[0]), ev(args[1]))
        elif op == "SQRT":
            a = ev(args[0])
            if a < 0:
                raise Undefined()
            rn, rd = math.isqrt(a.numerator), math.isqrt(a.denominator)
            if rn * rn == a.numerator and rd * rd == a.denominator:
                v = Fraction(rn, rd)
            else:
                v = Fraction(math.sqrt(a))  # irrational root: a positive value is all that matters for finiteness
        elif op in ("POW", "CONSTPOW"):
            a, e = ev(args[0]), ev(args[1])
            if e.denominator == 1:
                if e < 0 and a == 0:
                    raise Undefined()
                v = a ** int(e)
            else:
                if a < 0 or (a == 0 and e < 0):
                    raise Undefined()
                v = Fraction(float(a) ** float(e))
        elif op in ("SIN", "COS", "TAN", "ATAN", "ASIN", "ACOS", "ATAN2"):
            xs = [ev(a) for a in args]
            if op in ("ASIN", "ACOS") and abs(xs[0]) > 1:
                raise Undefined()
            if op == "ATAN2" and xs[0] == 0 and xs[1] == 0:
                v = Fraction(0)
            else:
                v = Fraction(getattr(math, op.lower())(*[float(x) for x in xs]))
        else:
            raise Undefined()
        memo[n] = v
        return v

    try:
        return [[ev(n) for n in row] for k in on for row in on[k]]
    except Undefined:
        return None


class SweepJob:
    """BOUNDED stand-in for the floating-point clause: double evaluation vs a 60-digit evaluation of the analytically
    continued function (closed-form branch taken whenever the rotation is non-zero) on a logarithmic grid"""

    def __init__(self, name):
        self.id = f"C06.sweep[{name}]"
        self.name = name
        self.functions = [symbolic.taylor_series_near_zero]

    def run(self, seed=0):
        import mpmath
        mpmath.mp.dps = 120
        t0 = time.time()
        w, out = consumers()[self.name]
        f = ca.Function("f", [w], [ca.vec(out)])
        g, on, _ = ir.extract({"w": w}, {"y": ca.vec(out)})
        nodes = [row[0] for row in on["y"]]
        a, b = rot_slice(self.name)
        n = w.shape[0]
        rng = random.Random(seed + 17)
        mags = [0.0, 5e-324, 1e-310, 1e-200, 1e-100, 1e-30, 1e-12, 1e-8, 1e-6, 1e-5, 1e-4, 5e-4, 9.99e-4, 1e-3, 1.001e-3, 2e-3, 1e-2, 0.0316, 0.031622, 0.0316227766, 0.0316228,
                0.03163, 0.04, 0.0632, 0.06324, 0.063245553, 0.0632456, 0.06325, 0.1, 0.3, 0.5, 0.7, 0.9, 1.0]
        worst = (0.0, None)
        n_eval = 0
        distinct = set()
        for m in mags:
            for rep in range(3):
                d = [rng.gauss(0, 1) for _ in range(b - a)]
                if rep == 1:
                    d = [1.0 if k == 0 else 0.0 for k in range(b - a)]
                nrm = math.sqrt(sum(x * x for x in d)) or 1.0
                pt = [rng.uniform(-1, 1) for _ in range(n)]
                for k in range(a, b):
                    pt[k] = d[k - a] / nrm * m
                if self.name.startswith("SE2"):
                    pt[2] = m if rep != 2 else -m
                dbl = [float(x) for x in ca.DM(f(ca.DM(pt))).full().ravel()]
                ref = mp_eval(g, nodes, pt, mpmath)
                n_eval += 1
                distinct.add((m, rep))
                for i, (x, y) in enumerate(zip(dbl, ref)):
                    if y is None:
                        continue
                    err = abs(mpmath.mpf(x) - y) if math.isfinite(x) else mpmath.inf
                    if err > worst[0]:
                        worst = (float(err), {"w": pt, "entry": i, "double": x, "reference": float(y), "rotation_magnitude": m})
        ok = worst[0] <= 1e-9
        return [Result(self.id, f"[bounded] {self.name}: double evaluation within 1e-9 of the exact value for rotation magnitudes 0..1 rad (log grid, both sides of every switch)",
                       PROVED if ok else REFUTED, "SWEEP", "", time.time() - t0,
                       f"{n_eval} points, {len(mags)} magnitudes x 3 directions; worst abs error {worst[0]:.3e}", None if ok else {"inputs": worst[1]}, n_eval)]

    def replay(self, w):
        rs = self.run(0)
        bad = [r for r in rs if r.status == REFUTED]
        return bool(bad), "; ".join(r.detail for r in bad[:3])


def mp_eval(g, nodes, pt, mp):
    """60-digit evaluation of the analytically continued function: the closed-form branch of every Taylor switch is used
    whenever its argument is non-zero, the Taylor branch only at exactly zero; other conditions are evaluated as written"""
    memo = {}
    import sys
    sys.setrecursionlimit(20000)

    def ev(n):
        if n is None:
            return mp.mpf(0)
        if n in memo:
            return memo[n]
        op, args, payload = g.nodes[n]
        if op == "INPUT":
            v = mp.mpf(pt[payload[1]])
        elif op == "CONST":
            v = mp.mpf(payload.numerator) / payload.denominator if not isinstance(payload, str) else mp.mpf(payload)
        elif op == "IF_ELSE_ZERO":
            v = ev(args[1]) if cond(args[0]) else mp.mpf(0)
        elif op in ("LT", "LE", "EQ", "NE", "NOT", "AND", "OR"):
            v = mp.mpf(1) if cond(n) else mp.mpf(0)
        elif op == "ADD":
            v = ev(args[0]) + ev(args[1])
        elif op == "SUB":
            v = ev(args[0]) - ev(args[1])
        elif op == "MUL":
            v = ev(args[0]) * ev(args[1])
        elif op == "DIV":
            v = ev(args[0]) / ev(args[1])
        elif op == "INV":
            v = 1 / ev(args[0])
        elif op == "NEG":
            v = -ev(args[0])
        elif op == "SQ":
            v = ev(args[0]) ** 2
        elif op == "TWICE":
            v = 2 * ev(args[0])
        elif op == "SQRT":
            v = mp.sqrt(ev(args[0]))
        elif op in ("POW", "CONSTPOW"):
            v = mp.power(ev(args[0]), ev(args[1]))
        elif op == "FABS":
            v = abs(ev(args[0]))
        elif op == "SIGN":
            v = mp.sign(ev(args[0]))
        elif op == "FMIN":
            v = min(ev(args[0]), ev(args[1]))
        elif op == "FMAX":
            v = max(ev(args[0]), ev(args[1]))
        elif op == "ATAN2":
            v = mp.atan2(ev(args[0]), ev(args[1]))
        elif op.lower() in ("sin", "cos", "tan", "asin", "acos", "atan"):
            v = getattr(mp, op.lower())(ev(args[0]))
        else:
            raise NotImplementedError(op)
        memo[n] = v
        return v

    def cond(n):
        op, args, payload = g.nodes[n]
        if op == "NOT":
            return not cond(args[0])
        if op == "AND":
            return cond(args[0]) and cond(args[1])
        if op == "OR":
            return cond(args[0]) or cond(args[1])
        if op == "LT" and g.op(args[1]) == "CONST" and g.payload(args[1]) == EPS:
            # Taylor switch: the reference is the analytic continuation: the closed form evaluated with 120 digits when the
            # argument is >= 1e-8 in magnitude (cancellation of at most ~50 digits), the Taylor branch below that (its
            # truncation error there is < 1e-48 by the rigorous lemma, far below the 1e-9 target)
            return abs(ev(args[0])) < mp.mpf("1e-8")
        a, b = ev(args[0]), ev(args[1])
        return {"LT": a < b, "LE": a <= b, "EQ": a == b, "NE": a != b}[op]

    out = []
    for n in nodes:
        try:
            out.append(ev(n))
        except ZeroDivisionError:
            out.append(None)
    return out


def link_traces(tier):
    """which exact function the accuracy clause is measured against: for exp / log / Jacobians the closed-cell identities are
    C02-C05; for the mixed-invariant exponential (calculate_N / exp_mixed, consumed only by the strapdown propagation) it
    is C08's flow / initial-value / zero-rate characterisation, re-run here so that a wrong coefficient in that consumer
    is reported under C06 as well"""
    from . import c08
    out = []
    for t in c08.traces(tier):
        if t.id in ("C08.flow", "C08.init", "C08.zero-rate"):
            t.id = f"C06.exact-function[{t.id}]"
            out.append(t)
    return out


def traces(tier="quick"):
    return closed_form_traces() + hint_traces() + link_traces(tier)


def jobs(tier="quick"):
    J = [SeriesJob("C06.SERIES", SERIES, False), SeriesJob("C06.SQUARED_SERIES", SQUARED_SERIES, True), ZeroJob()]
    names = list(consumers())
    for n in names:
        J.append(SweepJob(n))
    from . import c06fp
    J += c06fp.jobs()
    return J


class OrderCanary:
    """engine canary: a series truncated at order 3 must violate the 1e-12 truncation bound"""
    id = "C06.canary.order-3"

    def run(self, seed=0):
        import sympy
        u = sympy.symbols("x")
        F = symbolic.taylor_series_near_zero(u, sympy.sin(sympy.sqrt(u)) / sympy.sqrt(u), order=2)
        job = SeriesJob(self.id, {"sin(x)/x": F}, True)
        rs = [r for r in job.run() if "sup over" in r.ob]
        for r in rs:
            if r.status == REFUTED:
                r.witness = r.witness or {"inputs": {}}
        return rs


def canaries(tier="quick"):
    return [OrderCanary()]


def evidence_extra(ev, results, metas):
    c = ev["coverage"]
    c["fp_rigorous"] = [{"consumer": r["trace"], "status": r["status"], "detail": r["detail"][:200]} for r in results if r["backend"] == "FPERR"]
    sweep = [r for r in results if r["backend"] == "SWEEP"]
    c["bounded_sweep_points"] = sum(r.get("entries", 0) for r in sweep)
    c["bounded_sweep_rule"] = ("bounded part (never counted as proved): one evaluation = one consumer function evaluated in doubles at one point of the grid (34 rotation magnitudes from 0 and "
                               "denormals to 1 rad incl. both sides of the switches at theta = 1e-3, 0.0316, 0.0632, x 3 directions, random O(1) translations) and compared with a 120-digit evaluation")


LEVEL = "proof"
BOUNDED_BACKENDS = ("SWEEP",)
HARD_TIMEOUT = {"quick": 1200, "thorough": 3600}
MIN_OBLIGATIONS = {"quick": 100, "thorough": 100}
TRUSTED = ["lemma L-TAYLOR: Lagrange / series remainders of sin, cos, atan: machine-checked in Lean 4 / mathlib (lemmas/Taylor.lean, `./check lemmas`); that cyverif/taylor.py uses exactly these constants is by inspection",
           "own Taylor-form arithmetic cyverif.taylor (exact rationals), canary on every run",
           "own interval arithmetic (outward rounding by nextafter) and forward error analysis cyverif.fperr; cross-checked against 60-digit evaluation by ./check selftest",
           "lemma L-NORMALIZE (reduction machine-checked in Lean 4 / mathlib, lemmas/Normalize.lean; the IEEE facts it rests on - monotone rounding, fl(+-1) = +-1, Boldo's fl(sqrt(fl(x^2))) = |x| - stay assumed): in binary IEEE arithmetic |fl(x / fl(sqrt(fl(... + x^2 + ...))))| <= 1 when the sum neither underflows nor overflows (sqrt(fl(x^2)) rounds to |x|, rounding is monotone)",
           "mpmath 120-digit arithmetic as reference for the bounded sweep"]
ASSUMPTIONS = ["A-FP (floating-point model): IEEE-754 binary64, round to nearest, |fl(a op b) - (a op b)| <= 2^-53 |a op b| + 2^-1074 for + - * /, sqrt correctly rounded, libm sin/cos/tan/atan/asin/acos/atan2/pow within 1 ulp; "
               "CasADi's SX virtual machine and its generated C evaluate the instruction list in order without re-association or fused operations (C09 validates the generated C structurally)",
               "the accuracy clause is proved for every rotation VECTOR in the ball |w|_2 <= 1 rad (all directions; covered by boxes, adaptively bisected) and translational inputs in [-1, 1]; logarithms and conversions are composed with the "
               "exponential so that their input ranges over exactly the group elements with rotation angle <= 1 rad",
               "the 'exact mathematical value' is the real-arithmetic value of the same graph with every series coefficient replaced by the analytic function its key names (closed form = named function: C06 closed-form obligations; "
               "Taylor side: truncation lemma); that this real-arithmetic function is the Lie-theoretic exp / log / Jacobian is C02-C05 (closed cell) and the Taylor-cell obligations there",
               "AD clause: value and CasADi AD Jacobian proved finite on the whole ball including zero for every consumer (the acos-based logarithms after their round-2 repairs, fixes f23b635 and d9649ea in /repo); CasADi's AD itself is trusted",
               "entries '1/x^2' and '(2 - x cos(x))/(2 x^2)' have true poles at 0 (no finite limit): SE23.log evaluates '1/x^2' but never uses the result (dead code, checked on the graph); no other consumer exists"]
BOUNDED = ["floating-point accuracy of every consumer re-checked by evaluation: 34 magnitudes x 3 directions per function, doubles vs 120-digit reference (backend SWEEP; reported under bounded_stand_ins, not counted as proved)"]
