"""C09 — generated C code computes the same functions as the symbolic models (translation validation).

For every code-generation entry point of the repository, every shipped equation set and a lattice of generator
options: generation returns; the file exports exactly the set's function names; every function body is the SAME
TERM as the Function's instruction list (structural TV, cyverif.tv_c); n_in/n_out and sparsity layouts agree; the
header declares every function; gcc/g++ -Wall compiles it; the compiled object agrees bit-for-bit with the CasADi
VM on special-value inputs (additional evidence)."""
from __future__ import annotations

import ast
import contextlib
import ctypes
import importlib
import io
import itertools
import math
import os
import random
import shutil
import subprocess
import sys
import tempfile
import time
import traceback

import casadi as ca

from cyverif import tv_c
from cyverif.harness import ERROR, PROVED, REFUTED, UNDECIDED, Result

ROOT = os.path.dirname(os.path.dirname(os.path.abspath(__file__)))
LEVEL = "translation_validation"

MODEL_OPTS = ["verbose", "mex", "cpp", "main", "with_header", "with_mem", "with_export", "with_import", "include_math", "avoid_stack"]
MODEL_DEFAULT = {"verbose": True, "mex": False, "cpp": False, "main": False, "with_header": True, "with_mem": False, "with_export": False,
                 "with_import": False, "include_math": True, "avoid_stack": True}
EST_DEFAULT = {"main": False, "mex": False, "with_header": True, "with_mem": True, "force_canonical": True}


def quiet():
    return contextlib.redirect_stdout(io.StringIO())


def main_export_list(modname):
    """the derive_* calls of the module's `if __name__ == '__main__'` block (the shipped export list)"""
    mod = importlib.import_module(modname)
    src = open(mod.__file__).read()
    tree = ast.parse(src)
    names = []
    fname = None
    for node in tree.body:
        if isinstance(node, ast.If) and isinstance(node.test, ast.Compare) and getattr(node.test.left, "id", None) == "__name__":
            for st in ast.walk(node):
                if isinstance(st, ast.Call) and isinstance(st.func, ast.Attribute) and st.func.attr == "update" and st.args and isinstance(st.args[0], ast.Call):
                    names.append(st.args[0].func.id)
                if isinstance(st, ast.Call) and getattr(st.func, "id", None) == "generate_code":
                    for kw in st.keywords:
                        if kw.arg == "filename":
                            fname = kw.value.value
    return mod, names, fname


def derive_set(modname):
    with quiet():
        mod, names, fname = main_export_list(modname)
        eqs = {}
        for n in names:
            eqs.update(getattr(mod, n)())
    return mod, eqs, fname, names


# equation sets: name -> (callable returning dict fname -> Function)
def sets():
    def est(which):
        def f():
            with quiet():
                from cyecca.estimate.attitude import algorithms
                return algorithms.eqs()[which]
        return f

    def model(modname):
        def f():
            return derive_set(modname)[1]
        return f

    def mr():
        with quiet():
            from cyecca.models import mr_ref_traj
            return mr_ref_traj.derive_mr_ref_traj()

    return {"estimator_mrp": est("mrp"), "estimator_sim": est("sim"), "rdd2": model("cyecca.models.rdd2"),
            "rdd2_loglinear": model("cyecca.models.rdd2_loglinear"), "bezier": model("cyecca.models.bezier"), "mr_ref_traj": mr}


class GenJob:
    """one (entry point, equation set(s), option vector)"""

    def __init__(self, id, entry, setnames, opts, functions):
        self.id, self.entry, self.setnames, self.opts, self.functions = id, entry, setnames, opts, functions
        self.note = f"entry {entry}, options {opts}"

    # -- generation through the REAL entry points --
    def generate(self, d):
        S = sets()
        opts = self.opts
        if self.entry == "main":
            (sn,) = self.setnames
            modname = f"cyecca.models.{sn}"
            r = subprocess.run([sys.executable, "-m", modname, d], capture_output=True, text=True, timeout=600,
                               env=dict(os.environ, MPLBACKEND="Agg"))
            if r.returncode != 0:
                raise RuntimeError(f"python -m {modname} failed: {r.stderr[-400:]}")
            mod, eqs, fname, _ = derive_set(modname)
            return {fname: eqs}
        if self.entry == "model.generate_code":
            (sn,) = self.setnames
            modname = f"cyecca.models.{sn}"
            mod, eqs, fname, _ = derive_set(modname)
            with quiet():
                mod.generate_code(eqs, filename=fname, dest_dir=d, **opts)
            return {fname: eqs}
        if self.entry == "algorithms.generate_code":
            with quiet():
                from cyecca.estimate.attitude import algorithms
                eqs = algorithms.eqs()
                algorithms.generate_code(eqs, d, **opts)
            return {f"casadi_{k}.c": v for k, v in eqs.items()}
        if self.entry == "codegen.generate_code":
            with quiet():
                from cyecca import codegen
                eqs = {sn: S[sn]() for sn in self.setnames}
                codegen.generate_code(eqs, d, **opts)
            return {f"{k}.c": v for k, v in eqs.items()}
        raise ValueError(self.entry)

    def effective(self):
        base = dict(EST_DEFAULT if self.entry == "algorithms.generate_code" else MODEL_DEFAULT)
        base.update(self.opts)
        return base

    def run(self, seed=0):
        t0 = time.time()
        os.makedirs(os.path.join(ROOT, "scratch"), exist_ok=True)
        d = tempfile.mkdtemp(prefix="c09_", dir=os.path.join(ROOT, "scratch"))
        R = []
        eff = self.effective()
        try:
            try:
                files = self.generate(d)
            except Exception as e:
                msg = str(e)
                if "with_mem" in msg and "force_canonical" in msg and eff.get("with_mem") and not eff.get("force_canonical"):
                    return [Result(self.id, "option combination rejected by the CasADi CodeGenerator itself (not an accepted combination)", PROVED, "TV", "", time.time() - t0,
                                   "with_mem without force_canonical is refused by CasADi; out of scope", None, 0)]
                return [Result(self.id, "generation succeeds", REFUTED, "TV", "", time.time() - t0,
                               f"{type(e).__name__}: {msg[:500]}\n{traceback.format_exc(limit=4)}", {"inputs": {"options": self.opts}})]
            R.append(Result(self.id, "generation succeeds", PROVED, "TV", "", time.time() - t0, f"files {sorted(files)}", None, 1))
            for fname, eqs in files.items():
                R += self.check_file(d, fname, eqs, eff, seed)
        finally:
            shutil.rmtree(d, ignore_errors=True)
        return R

    def check_file(self, d, fname, eqs, eff, seed):
        R = []
        path = os.path.join(d, fname)
        tag = f"{fname}"
        if not os.path.exists(path):
            return [Result(self.id, f"{tag}: file written", REFUTED, "TV", "", 0.0, f"{fname} not found in {sorted(os.listdir(d))}", {"inputs": {}})]
        text = open(path).read()
        try:
            parsed = tv_c.parse_c_file(text)
        except tv_c.TVError as e:
            return [Result(self.id, f"{tag}: parse", REFUTED, "TV", "", 0.0, str(e), {"inputs": {}})]
        expected = {f.name() for f in eqs.values()}
        got = set(parsed["exports"])
        ok = expected == got and len(expected) == len(eqs)
        R.append(Result(self.id, f"{tag}: exported function set = equation set (none dropped, duplicated or renamed)", PROVED if ok else REFUTED, "TV", "", 0.0,
                        f"{len(got)} functions" if ok else f"missing {sorted(expected - got)} extra {sorted(got - expected)} set-size {len(eqs)} names {len(expected)}",
                        None if ok else {"inputs": {}}, 1))
        for key, f in eqs.items():
            t1 = time.time()
            issues, n = tv_c.validate_function(parsed, f)
            R.append(Result(self.id, f"{tag}: {f.name()} body, arity and sparsity layout = Function (structural TV)", PROVED if not issues else REFUTED, "TV", "",
                            time.time() - t1, f"{n} output terms identical; {f.n_instructions()} instructions" if not issues else "; ".join(issues[:4]),
                            None if not issues else {"inputs": {}}, n))
        if eff.get("with_header"):
            hp = os.path.splitext(path)[0] + ".h"
            htxt = open(hp).read() if os.path.exists(hp) else ""
            miss = [n for n in expected if f"int {n}(const casadi_real** arg" not in htxt]
            R.append(Result(self.id, f"{tag}: header declares every function", PROVED if not miss else REFUTED, "TV", "", 0.0,
                            "all prototypes present" if not miss else f"missing prototypes {miss}", None if not miss else {"inputs": {}}, 1))
        # the options in effect are the REQUESTED ones (an explicit False must override a True default and vice versa):
        # each option has an observable footprint in what was written
        text_c = open(path).read()
        hp_ = os.path.splitext(path)[0] + ".h"
        seen = {"with_header": os.path.exists(hp_), "with_mem": "casadi/mem.h" in text_c, "main": ("int main(" in text_c or "main(int argc" in text_c),
                "mex": "mexFunction" in text_c}
        wrong = {k: {"requested": bool(eff[k]), "observed": v} for k, v in seen.items() if k in eff and bool(eff[k]) != v}
        R.append(Result(self.id, f"{tag}: the generated files reflect the requested options (header written iff with_header, casadi/mem.h iff with_mem, main() iff main, mexFunction iff mex)",
                        PROVED if not wrong else REFUTED, "TV", "", 0.0, f"footprints {seen}" if not wrong else f"option(s) not honoured: {wrong}",
                        None if not wrong else {"inputs": {"options": self.opts}, "observed": wrong}, 1))
        # compile
        cc = ["g++", "-x", "c++"] if eff.get("cpp") else ["gcc"]
        extra = [] if eff.get("include_math", True) else ["-include", "math.h"]
        extra += ["-I", os.path.join(os.path.dirname(ca.__file__), "include")]
        so = os.path.splitext(path)[0] + ".so"
        t1 = time.time()
        r = subprocess.run(cc + ["-Wall", "-O0", "-fPIC", "-shared"] + extra + [path, "-o", so, "-lm"], capture_output=True, text=True, timeout=900)
        nwarn = r.stderr.count("warning:")
        R.append(Result(self.id, f"{tag}: compiles ({' '.join(cc)} -Wall)", PROVED if r.returncode == 0 else REFUTED, "CC", "", time.time() - t1,
                        f"exit 0, {nwarn} warnings" if r.returncode == 0 else r.stderr[-500:], None if r.returncode == 0 else {"inputs": {}}, 1))
        if r.returncode == 0 and not eff.get("main") and not eff.get("with_import"):
            t1 = time.time()
            try:
                bad, n = self.differential(so, eqs, seed, eff)
                R.append(Result(self.id, f"{tag}: compiled code = CasADi VM on special-value inputs (bit-for-bit, NaN = NaN)", PROVED if not bad else REFUTED, "DIFF", "",
                                time.time() - t1, f"{n} evaluations identical" if not bad else "; ".join(bad[:3]), None if not bad else {"inputs": {"case": bad[0]}}, n))
            except Exception as e:
                R.append(Result(self.id, f"{tag}: differential run", UNDECIDED, "DIFF", "", time.time() - t1, f"{type(e).__name__}: {e}"))
        return R

    def differential(self, so, eqs, seed, eff):
        lib = ctypes.CDLL(so)
        rng = random.Random(seed)
        bad = []
        n = 0
        dbl_p = ctypes.POINTER(ctypes.c_double)
        for f in eqs.values():
            fn = getattr(lib, f.name())
            fn.restype = ctypes.c_int
            nin, nout = f.n_in(), f.n_out()
            cases = []
            for kind in ("normal", "normal", "zeros", "ones", "small", "mixed"):
                args = []
                for i in range(nin):
                    nnz = f.nnz_in(i)
                    if kind == "normal":
                        v = [rng.gauss(0, 1) for _ in range(nnz)]
                    elif kind == "zeros":
                        v = [0.0] * nnz
                    elif kind == "ones":
                        v = [1.0] * nnz
                    elif kind == "mixed":
                        v = [rng.choice([0.0, 1.0, -1.0, 0.5, 1e-8, -3.0]) for _ in range(nnz)]
                    elif kind == "small":
                        v = [rng.gauss(0, 1) * 1e-4 for _ in range(nnz)]
                    elif kind == "nan":
                        v = [rng.gauss(0, 1) for _ in range(nnz)]
                        if nnz:
                            v[rng.randrange(nnz)] = float("nan")
                    else:
                        v = [rng.gauss(0, 1) for _ in range(nnz)]
                        if nnz:
                            v[rng.randrange(nnz)] = float("inf")
                    args.append(v)
                cases.append((kind, args))
            for kind, args in cases:
                bufs = [(ctypes.c_double * max(1, len(a)))(*a) for a in args]
                argv = (dbl_p * max(1, f.sz_arg()))()
                for i, b in enumerate(bufs):
                    argv[i] = ctypes.cast(b, dbl_p)
                outs = [(ctypes.c_double * max(1, f.nnz_out(i)))() for i in range(nout)]
                resv = (dbl_p * max(1, f.sz_res()))()
                for i, b in enumerate(outs):
                    resv[i] = ctypes.cast(b, dbl_p)
                iw = (ctypes.c_longlong * max(1, f.sz_iw()))()
                w = (ctypes.c_double * max(1, f.sz_w()))()
                if eff.get("with_mem"):
                    fn(argv, resv, iw, w, ctypes.c_void_p(0)) if False else fn(argv, resv, iw, w, 0)
                else:
                    fn(argv, resv, iw, w, 0)
                dm_in = []
                for i in range(nin):
                    dm = ca.DM(f.sparsity_in(i), ca.DM([float(x) for x in args[i]])) if f.nnz_in(i) else ca.DM(f.sparsity_in(i))
                    dm_in.append(dm)
                ref = f.call(dm_in)
                for i in range(nout):
                    rv = [float(x) for x in ca.DM(ref[i]).nonzeros()]
                    cv = list(outs[i])[: len(rv)]
                    for k, (a, b) in enumerate(zip(cv, rv)):
                        n += 1
                        same = (a == b) or (math.isnan(a) and math.isnan(b))
                        if not same:
                            bad.append(f"{f.name()} [{kind}] out{i}[{k}]: C {a!r} vs VM {b!r}")
        return bad, n

    def replay(self, w):
        rs = self.run(0)
        bad = [r for r in rs if r.status == REFUTED]
        return bool(bad), "; ".join(f"{r.ob}: {r.detail[:200]}" for r in bad[:3])


def flips(default, keys):
    out = []
    for k in keys:
        out.append({k: (not default[k])})
    return out


def jobs(tier="quick"):
    J = []
    fns = []
    with quiet():
        from cyecca import codegen
        from cyecca.estimate.attitude import algorithms
        from cyecca.models import rdd2, rdd2_loglinear, bezier
    # shipped __main__ export lists (subprocess, default options)
    for sn in ("rdd2", "rdd2_loglinear", "bezier"):
        J.append(GenJob(f"C09.main.{sn}", "main", [sn], {}, [getattr({"rdd2": rdd2, "rdd2_loglinear": rdd2_loglinear, "bezier": bezier}[sn], "generate_code")]))
    # estimator generator: default + flips
    J.append(GenJob("C09.algorithms.default", "algorithms.generate_code", ["estimator_mrp", "estimator_sim"], {}, [algorithms.generate_code]))
    for o in flips(EST_DEFAULT, ["main", "mex", "with_header"]) + [{"with_mem": False, "force_canonical": False}]:
        J.append(GenJob("C09.algorithms." + ",".join(f"{k}={v}" for k, v in o.items()), "algorithms.generate_code", ["estimator_mrp", "estimator_sim"], o, [algorithms.generate_code]))
    # generic generator on every shipped set incl. the reference trajectory
    J.append(GenJob("C09.codegen.default", "codegen.generate_code", ["estimator_mrp", "estimator_sim", "rdd2_loglinear", "mr_ref_traj"], {}, [codegen.generate_code]))
    J.append(GenJob("C09.codegen.default.big", "codegen.generate_code", ["rdd2", "bezier"], {}, [codegen.generate_code]))
    # model generators: every single flip (quick: on the two smaller sets; thorough: all three + pairs)
    mods = {"rdd2": rdd2, "rdd2_loglinear": rdd2_loglinear, "bezier": bezier}
    small = ["rdd2_loglinear"] if tier == "quick" else ["rdd2_loglinear", "rdd2", "bezier"]
    for sn in small:
        for o in flips(MODEL_DEFAULT, MODEL_OPTS):
            J.append(GenJob(f"C09.{sn}.generate_code." + ",".join(f"{k}={v}" for k, v in o.items()), "model.generate_code", [sn], o, [mods[sn].generate_code]))
    for which, fn in (("rdd2", rdd2.generate_code), ("rdd2_loglinear", rdd2_loglinear.generate_code), ("bezier", bezier.generate_code),
                      ("codegen", codegen.generate_code), ("algorithms", algorithms.generate_code)):
        J.append(StatelessJob(f"C09.{which}.stateless", which, [fn]))
    if tier == "quick":
        for sn in ("rdd2", "bezier"):
            for o in [{"avoid_stack": False}, {"cpp": True}]:
                J.append(GenJob(f"C09.{sn}.generate_code." + ",".join(f"{k}={v}" for k, v in o.items()), "model.generate_code", [sn], o, [mods[sn].generate_code]))
        for o in flips(MODEL_DEFAULT, ["cpp", "avoid_stack", "include_math", "with_header", "mex"]):
            J.append(GenJob("C09.codegen." + ",".join(f"{k}={v}" for k, v in o.items()), "codegen.generate_code", ["mr_ref_traj", "estimator_sim"], o, [codegen.generate_code]))
    else:
        keys = [k for k in MODEL_OPTS if k != "with_mem"]
        for a, b in itertools.combinations(keys, 2):
            o = {a: not MODEL_DEFAULT[a], b: not MODEL_DEFAULT[b]}
            J.append(GenJob("C09.rdd2_loglinear.generate_code." + ",".join(f"{k}={v}" for k, v in o.items()), "model.generate_code", ["rdd2_loglinear"], o,
                            [rdd2_loglinear.generate_code]))
        for o in flips(MODEL_DEFAULT, MODEL_OPTS):
            J.append(GenJob("C09.codegen." + ",".join(f"{k}={v}" for k, v in o.items()), "codegen.generate_code",
                            ["estimator_mrp", "estimator_sim", "rdd2_loglinear", "mr_ref_traj"], o, [codegen.generate_code]))
    return J


class StatelessJob:
    """history clause: generating with non-default options must not change what a later default-option call of the same
    entry point produces in the same process (byte-identical files)"""

    def __init__(self, id, which, functions):
        self.id, self.which, self.functions = id, which, functions
        self.note = "sequence: defaults -> main=True,with_header=False -> defaults; third output must equal the first"

    def gen(self, d, opts):
        with quiet():
            if self.which == "algorithms":
                from cyecca.estimate.attitude import algorithms
                algorithms.generate_code(algorithms.eqs(), d, **opts)
            elif self.which == "codegen":
                from cyecca import codegen
                codegen.generate_code({"mr_ref_traj": sets()["mr_ref_traj"]()}, d, **opts)
            else:
                mod, eqs, fname, _ = derive_set(f"cyecca.models.{self.which}")
                mod.generate_code(eqs, filename=fname, dest_dir=d, **opts)
        out = {}
        for fn in sorted(os.listdir(d)):
            out[fn] = open(os.path.join(d, fn)).read()
        return out

    def run(self, seed=0):
        os.makedirs(os.path.join(ROOT, "scratch"), exist_ok=True)
        ds = [tempfile.mkdtemp(prefix="c09s_", dir=os.path.join(ROOT, "scratch")) for _ in range(3)]
        t0 = time.time()
        try:
            a = self.gen(ds[0], {})
            self.gen(ds[1], {"main": True, "with_header": False})
            c = self.gen(ds[2], {})
            same = a == c
            diff = sorted(set(a) ^ set(c)) + [k for k in a if k in c and a[k] != c[k]]
            return [Result(self.id, "a call with non-default options does not change what a later default call generates (no sticky state)", PROVED if same else REFUTED,
                           "TV", "", time.time() - t0, f"{len(a)} files byte-identical" if same else f"files differing / missing after an intervening call: {diff}",
                           None if same else {"inputs": {"sequence": ["{}", "main=True,with_header=False", "{}"]}}, len(a))]
        except Exception as e:
            return [Result(self.id, "stateless generation", REFUTED, "TV", "", time.time() - t0, f"{type(e).__name__}: {e}", {"inputs": {}}, 1)]
        finally:
            for d in ds:
                shutil.rmtree(d, ignore_errors=True)

    def replay(self, w):
        r = self.run()[0]
        return r.status == REFUTED, r.detail


class TamperCanary:
    """engine canary: a generated file with two operands of one subtraction swapped / one function dropped must be refused"""
    id = "C09.canary.tampered-file"

    def run(self, seed=0):
        os.makedirs(os.path.join(ROOT, "scratch"), exist_ok=True)
        d = tempfile.mkdtemp(prefix="c09c_", dir=os.path.join(ROOT, "scratch"))
        try:
            with quiet():
                from cyecca import codegen
                from cyecca.models import mr_ref_traj
                eqs = mr_ref_traj.derive_mr_ref_traj()
                codegen.generate_code({"mr": eqs}, d)
            text = open(os.path.join(d, "mr.c")).read()
            import re
            m = re.search(r"\((w\[\d+\])-(w\[\d+\])\);", text)
            tampered = text[: m.start()] + f"({m.group(2)}-{m.group(1)});" + text[m.end():]
            parsed = tv_c.parse_c_file(tampered)
            issues, n = tv_c.validate_function(parsed, eqs["mr_ref_traj"])
            ok = bool(issues)
            return [Result(self.id, "swapped operands of one subtraction are detected", REFUTED if ok else PROVED, "TV", "", 0.0,
                           issues[0][:300] if ok else "tampering NOT detected", {"inputs": {"tampered": m.group(0)}} if ok else None, 1)]
        finally:
            shutil.rmtree(d, ignore_errors=True)


def canaries(tier="quick"):
    return [TamperCanary()]


HARD_TIMEOUT = {"quick": 1500, "thorough": 5400}
MIN_OBLIGATIONS = {"quick": 150, "thorough": 400}
RULE = "one evaluation = one obligation (generation, function set, per-function term equality + layout, header, compile, differential run); non-trivial = discharged"
TRUSTED = ["per-opcode table C spelling <-> VM opcode (cyverif.tv_c: +,-,*,/,comparisons,&&,||,!,?:0,casadi_sq,sqrt,sin,cos,tan,asin,acos,atan,atan2,pow,fmin,fmax,fabs,sign,2.*,1./,remainder,fmod)",
           "casadi Function.instruction_* is the algorithm the code generator prints (it is: both walk the same SXFunction algorithm)",
           "gcc / libm implement C99 semantics; CasADi's helper definitions (casadi_sq, casadi_fmin, ...) emitted in the same file",
           "doubles are printed with enough digits to round-trip (checked: constants compare equal as doubles)"]
ASSUMPTIONS = ["FMIN/FMAX caveat (CasADi, not cyecca): the VM evaluates fmin/fmax like std::min/std::max while the generated C calls C99 fmin/fmax (or the ternary under C++): they differ ONLY when an operand is NaN. The structural equality therefore implies equal results for every input on which no NaN reaches an fmin/fmax node; the differential runs use finite inputs (incl. all-zero inputs, which create NaN/Inf in unselected branches)",
               "equation sets re-derived in the checking process are the ones the entry point generated from (deterministic derivation; a mismatch shows up as a TV failure, never as a pass)",
               "compile environment: include_math=False is compiled with -include math.h; mex=True is compiled without MATLAB (mex section is #ifdef-guarded); warnings are counted, not failed on",
               "with_mem=True without force_canonical is rejected by the CasADi CodeGenerator itself (not an accepted combination); the model wrappers give no way to pass force_canonical",
               "differential runs skip main=True / with_import=True objects (not loadable as plain shared objects)"]
EXPLANATION = "structural translation validation: generated C and Function instruction list executed into one hash-consed term DAG, outputs must be identical terms"


def evidence_extra(ev, results, metas):
    tv = [r for r in results if "structural TV" in r["ob"]]
    ev["coverage"]["programs"] = len(tv)
    ev["coverage"]["programs_rule"] = "one program = one generated C function validated against its Function (per entry point and option vector)"
    ev["coverage"]["disagreements_checked"] = sum(1 for r in tv if r["status"] != "proved")
    ev["coverage"]["output_terms_compared"] = sum(r.get("entries", 0) for r in tv)
    ev["coverage"]["option_vectors"] = sorted({m.get("note", "") for m in metas.values()})
    ev["coverage"]["compiled_objects"] = sum(1 for r in results if r["backend"] == "CC" and r["status"] == "proved")
    ev["coverage"]["differential_evaluations"] = sum(r.get("entries", 0) for r in results if r["backend"] == "DIFF")
