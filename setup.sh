#!/bin/bash
# Build the overlay venv (offline). Idempotent.
set -e
cd "$(dirname "$0")"
if [ ! -x .venv/bin/python ] || ! .venv/bin/python -c "import z3, cvc5, casadi, sympy, jsonschema" 2>/dev/null; then
  rm -rf .venv
  /venv/bin/python -m venv .venv
  echo "import site; site.addsitedir('/venv/lib/python3.12/site-packages')" > .venv/lib/python3.12/site-packages/_venv_overlay.pth
  PIP_NO_INDEX=1 .venv/bin/pip install -q --no-index --find-links /opt/veriftools/wheels z3-solver cvc5 icontract deal crosshair-tool jsonschema
fi
.venv/bin/python -c "import z3, cvc5, casadi, sympy, jsonschema, cyecca; assert cyecca.__file__.startswith('/repo/'), cyecca.__file__"
echo "setup ok"
